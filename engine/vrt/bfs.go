package vrt

import (
	"fmt"
	"strings"
)

// BFSSpec drives an explicit-state breadth-first search over the REAL
// transition function: a state is the operation history that reaches it; a
// successor is computed by replaying the shortest known history on a fresh
// instance plus one operation (all of it executed by Exec under the default
// schedule of the cooperative runtime).
type BFSSpec struct {
	Ops      []string
	MaxDepth int
	// Exec runs the history (indexes into Ops) on a fresh real instance and
	// returns the canonical key of the state reached, whether the last
	// operation was applicable, and the oracle's verdicts for this execution.
	Exec func(hist []int) (key string, applicable bool, viol []Violation)
	Cfg  Config
}

// BFSResult is what the search covered.
type BFSResult struct {
	States, Transitions, Depth int
	Violations                 []Violation
	Samples                    []string
	Keys                       []string
}

// RunControlled executes f as thread 0 under the default schedule and returns the execution.
func RunControlled(cfg Config, f func()) *Exec {
	x := Run(cfg, func(n int, cost bool, label string) int { return 0 }, f)
	for attempt := 0; x.EnginePanic != "" && attempt < 3; attempt++ {
		EngineRetries++
		x = Run(cfg, func(n int, cost bool, label string) int { return 0 }, f)
	}
	if x.EnginePanic != "" {
		// persisted over four runs: stop the harness (check reports an engine error, never a verdict)
		panic("vrt: engine assertion persisted: " + x.EnginePanic)
	}
	return x
}

// BFS explores all histories up to MaxDepth, merging states with equal keys.
func BFS(spec BFSSpec) *BFSResult {
	res := &BFSResult{}
	seen := map[string][]int{}
	k0, _, v0 := spec.Exec(nil)
	seen[k0] = nil
	res.Keys = append(res.Keys, k0)
	res.Violations = append(res.Violations, v0...)
	frontier := [][]int{nil}
	clauses := map[string]bool{}
	for d := 0; d < spec.MaxDepth && len(frontier) > 0; d++ {
		var next [][]int
		for _, h := range frontier {
			for op := range spec.Ops {
				nh := append(append([]int{}, h...), op)
				key, ok, viol := spec.Exec(nh)
				if !ok {
					continue
				}
				res.Transitions++
				for _, v := range viol {
					if !clauses[v.Clause] {
						clauses[v.Clause] = true
						v.Detail = "history=" + histString(spec.Ops, nh) + "\n" + v.Detail
						res.Violations = append(res.Violations, v)
					}
				}
				if _, dup := seen[key]; !dup {
					seen[key] = nh
					res.Keys = append(res.Keys, key)
					next = append(next, nh)
					if len(res.Samples) < 8 {
						res.Samples = append(res.Samples, histString(spec.Ops, nh)+" -> "+key)
					}
					if d+1 > res.Depth {
						res.Depth = d + 1
					}
				}
			}
		}
		frontier = next
	}
	res.States = len(seen)
	return res
}

func histString(ops []string, h []int) string {
	var s []string
	for _, i := range h {
		s = append(s, ops[i])
	}
	return "[" + strings.Join(s, ", ") + "]"
}

// Report copies a BFS result into a DirectReport (model-checking front end).
func (res *BFSResult) Report(r *DirectReport, name string) {
	r.Evaluations += int64(res.Transitions)
	if r.Distinct == nil {
		r.Distinct = map[string]int64{}
	}
	for _, k := range res.Keys {
		r.Distinct[name+":"+k]++
	}
	r.Violations = append(r.Violations, res.Violations...)
	r.Samples = append(r.Samples, res.Samples...)
	r.Notes = append(r.Notes, fmt.Sprintf("states=%d transitions=%d depth=%d", res.States, res.Transitions, res.Depth))
}

package vrt

import (
	"crypto/sha1"
	"encoding/hex"
	"fmt"
	"sort"
	"strings"
	"time"
)

// Violation is one oracle failure observed in one execution.
type Violation struct {
	Clause string `json:"clause"` // stable signature: oracle clause + minimal witness (never the schedule)
	Detail string `json:"detail"`
}

// Fail records a violation in the current execution (callable from harness code).
func Fail(clause, format string, a ...any) {
	if cur != nil {
		cur.Violations = append(cur.Violations, Violation{Clause: clause, Detail: fmt.Sprintf(format, a...)})
	}
}

// Scenario is one closed system: a driver body plus an oracle.
type Scenario struct {
	Name string
	Prop string
	Cfg  Config
	// Body runs as thread 0.
	Body func()
	// Check is the post-execution oracle. It sees the finished execution.
	Check func(x *Exec) []Violation
	// Setup runs before every execution, outside the controlled world (reset of
	// package-level state). Optional.
	Setup func()
	// DeadlockOK: a deadlock of foreground threads is not by itself a violation.
	DeadlockOK bool
	// DeadlockClause is the property clause a deadlock is reported under.
	DeadlockClause string
	PanicClause    string
	// PanicSig, if set, derives the witness part of a panic clause from the panic
	// text (message + trimmed stack); default: the first line of the message.
	PanicSig        func(p string) string
	Quick, Thorough Bounds
	// NonTrivial tells whether an execution exercised what the scenario is about
	// (vacuity guard). nil = every execution with >1 thread counts.
	NonTrivial func(x *Exec) bool
	// Direct scenarios enumerate by themselves (pure product enumeration).
	Direct func(r *DirectReport, tier string)
	Doc    string
	Check2 any
}

// Bounds of one tier.
type Bounds struct {
	Dev      int // deviation bound
	MaxExecs int // cap (0 = none); hitting it makes the run non-exhaustive
	Seconds  int // wall budget (0 = default)
}

// DirectReport collects what a Direct scenario covered.
type DirectReport struct {
	Evaluations int64
	Distinct    map[string]int64
	Violations  []Violation
	Samples     []string
	Notes       []string
	Exhaustive  bool
}

func (r *DirectReport) Count(class string) {
	r.Evaluations++
	if r.Distinct == nil {
		r.Distinct = map[string]int64{}
	}
	r.Distinct[class]++
}
func (r *DirectReport) Fail(clause, format string, a ...any) {
	if len(r.Violations) < 50 {
		r.Violations = append(r.Violations, Violation{Clause: clause, Detail: fmt.Sprintf(format, a...)})
	}
}

// EngineRetries counts executions that were run again because an assertion of the run time failed.
var EngineRetries int

// PrefixEnt is one replayed choice with the arity it had when recorded.
type PrefixEnt struct {
	Pick int `json:"p"`
	N    int `json:"n"`
}

// RunOnce runs the scenario once along prefix, default choices afterwards.
func RunOnce(sc *Scenario, prefix []PrefixEnt) *Exec {
	if sc.Setup != nil {
		sc.Setup()
	}
	pos := 0
	var div string
	ch := func(n int, cost bool, label string) int {
		p := pos
		pos++
		if p < len(prefix) {
			if prefix[p].N != n {
				div = fmt.Sprintf("replay divergence at choice %d: recorded arity %d, now %d (%s)", p, prefix[p].N, n, label)
				if prefix[p].Pick >= n {
					return 0
				}
			}
			return prefix[p].Pick
		}
		return 0
	}
	x := Run(sc.Cfg, ch, sc.Body)
	for attempt := 0; x.EnginePanic != "" && attempt < 3; attempt++ {
		// an assertion of the run time failed: not a verdict; the same choices once more
		EngineRetries++
		if sc.Setup != nil {
			sc.Setup()
		}
		pos, div = 0, ""
		x = Run(sc.Cfg, ch, sc.Body)
	}
	if x.EnginePanic != "" && x.Diverged == "" {
		x.Diverged = "engine assertion (not a verdict): " + x.EnginePanic
	}
	if div != "" && x.Diverged == "" {
		x.Diverged = div
	}
	if pos < len(prefix) && x.Diverged == "" {
		x.Diverged = fmt.Sprintf("replay divergence: execution ended after %d choices, prefix has %d", pos, len(prefix))
	}
	// oracle
	if x.Diverged == "" {
		for _, p := range x.Panics {
			cl := sc.PanicClause
			if cl == "" {
				cl = "panic"
			}
			sig := panicSig(p)
			if sc.PanicSig != nil {
				sig = sc.PanicSig(p)
			}
			x.Violations = append(x.Violations, Violation{Clause: cl + ":" + sig, Detail: p})
		}
		if x.Deadlock != "" && !sc.DeadlockOK {
			cl := sc.DeadlockClause
			if cl == "" {
				cl = "deadlock"
			}
			x.Violations = append(x.Violations, Violation{Clause: cl + ":" + deadlockSig(x.Deadlock), Detail: x.Deadlock})
		}
		if x.StepLimit {
			x.Violations = append(x.Violations, Violation{Clause: "livelock:step-limit", Detail: "step limit reached"})
		}
		if sc.Check != nil && len(x.Panics) == 0 && !x.StepLimit {
			x.Violations = append(x.Violations, sc.Check(x)...)
		}
	}
	return x
}

func panicSig(p string) string {
	// first line after "panic in thread N (site): msg"
	l := strings.SplitN(p, "\n", 2)[0]
	if i := strings.Index(l, "): "); i >= 0 {
		l = l[i+3:]
	}
	if len(l) > 80 {
		l = l[:80]
	}
	return l
}

func deadlockSig(d string) string {
	// signature = where the FOREGROUND threads are stuck (daemons are always parked somewhere)
	var sites []string
	for _, l := range strings.Split(d, "\n") {
		if strings.HasPrefix(strings.TrimSpace(l), "bg thread") {
			continue
		}
		if i := strings.LastIndex(l, "@"); i >= 0 {
			sites = append(sites, l[i+1:])
		}
	}
	sort.Strings(sites)
	if len(sites) > 3 {
		sites = sites[:3]
	}
	return strings.Join(sites, ",")
}

// Violations found in the execution (filled by RunOnce).
func (x *Exec) Picks() []PrefixEnt {
	out := make([]PrefixEnt, len(x.Trace))
	for i, c := range x.Trace {
		out[i] = PrefixEnt{c.Pick, c.N}
	}
	return out
}

func (x *Exec) Deviations() int {
	d := 0
	for _, c := range x.Trace {
		if c.Cost && c.Pick != 0 {
			d++
		}
	}
	return d
}

func (x *Exec) LogHash() string {
	h := sha1.New()
	for _, l := range x.Log {
		h.Write([]byte(l))
		h.Write([]byte{0})
	}
	return hex.EncodeToString(h.Sum(nil))[:16]
}

// Found is a violation with the choice sequence that produced it.
type Found struct {
	Violation
	Scenario   string      `json:"scenario"`
	Prefix     []PrefixEnt `json:"prefix"`
	Deviations int         `json:"deviations"`
	Log        []string    `json:"log,omitempty"`
	Reproduced int         `json:"reproduced"`
	Flaky      bool        `json:"flaky,omitempty"`
}

// Stats is what one exploration covered.
type Stats struct {
	Scenario      string         `json:"scenario"`
	Bound         int            `json:"bound"`
	BoundDone     int            `json:"bound_completed"`
	Execs         int64          `json:"executions"`
	NonTrivial    int64          `json:"nontrivial_executions"`
	MaxPoints     int            `json:"max_points"`
	MaxChoices    int            `json:"max_choice_points"`
	Outcomes      map[string]int `json:"-"`
	NOutcomes     int            `json:"distinct_outcomes"`
	DevHist       map[int]int64  `json:"deviations_histogram"`
	Exhaustive    bool           `json:"exhaustive"`
	CapHit        string         `json:"cap_hit,omitempty"`
	Found         []Found        `json:"violations,omitempty"`
	Divergences   []string       `json:"divergences,omitempty"`
	Samples       []string       `json:"samples,omitempty"`
	WallS         float64        `json:"wall_s"`
	ReplayChecked bool           `json:"determinism_replay_ok"`
}

func newStats(sc *Scenario, bound int) *Stats {
	return &Stats{Scenario: sc.Name, Bound: bound, BoundDone: -1, Outcomes: map[string]int{}, DevHist: map[int]int64{}, Exhaustive: true}
}

func (s *Stats) merge(o *Stats) {
	s.Execs += o.Execs
	s.NonTrivial += o.NonTrivial
	if o.MaxPoints > s.MaxPoints {
		s.MaxPoints = o.MaxPoints
	}
	if o.MaxChoices > s.MaxChoices {
		s.MaxChoices = o.MaxChoices
	}
	for k, v := range o.Outcomes {
		s.Outcomes[k] += v
	}
	for k, v := range o.DevHist {
		s.DevHist[k] += v
	}
	if !o.Exhaustive {
		s.Exhaustive = false
		if s.CapHit == "" {
			s.CapHit = o.CapHit
		}
	}
	s.Found = append(s.Found, o.Found...)
	s.Divergences = append(s.Divergences, o.Divergences...)
	if len(s.Samples) < 6 {
		s.Samples = append(s.Samples, o.Samples...)
	}
}

// account records one finished execution in the stats; returns false to stop.
func (s *Stats) account(sc *Scenario, x *Exec) {
	s.Execs++
	if x.Points > s.MaxPoints {
		s.MaxPoints = x.Points
	}
	if len(x.Trace) > s.MaxChoices {
		s.MaxChoices = len(x.Trace)
	}
	nt := len(x.threads) > 1
	if sc.NonTrivial != nil {
		nt = sc.NonTrivial(x)
	}
	if nt {
		s.NonTrivial++
	}
	if nt && len(s.Outcomes) < 200000 {
		s.Outcomes[x.LogHash()]++
	}
	s.DevHist[x.Deviations()]++
	if x.Diverged != "" {
		if len(s.Divergences) < 5 {
			s.Divergences = append(s.Divergences, x.Diverged)
		}
		s.Exhaustive = false
		return
	}
	seen := map[string]bool{}
	for _, f := range s.Found {
		seen[f.Clause] = true
	}
	for _, v := range x.Violations {
		if seen[v.Clause] {
			continue
		}
		seen[v.Clause] = true
		lg := x.Log
		if len(lg) > 400 {
			lg = lg[len(lg)-400:]
		}
		s.Found = append(s.Found, Found{Violation: v, Scenario: sc.Name, Prefix: trimPrefix(x.Picks()), Deviations: x.Deviations(), Log: append([]string{}, lg...)})
	}
	if len(s.Samples) < 3 {
		s.Samples = append(s.Samples, fmt.Sprintf("%s picks=%s outcome=%s", sc.Name, picksString(x.Picks()), x.LogHash()))
	}
}

func trimPrefix(p []PrefixEnt) []PrefixEnt {
	n := len(p)
	for n > 0 && p[n-1].Pick == 0 {
		n--
	}
	return append([]PrefixEnt{}, p[:n]...)
}

func picksString(p []PrefixEnt) string {
	p = trimPrefix(p)
	var b strings.Builder
	for i, e := range p {
		if i > 0 {
			b.WriteByte(',')
		}
		fmt.Fprintf(&b, "%d", e.Pick)
	}
	if b.Len() > 120 {
		return b.String()[:120] + "..."
	}
	return b.String()
}

// children lists the unexplored alternatives of execution x after position from.
func children(x *Exec, from int, bound int) [][]PrefixEnt {
	var out [][]PrefixEnt
	picks := x.Picks()
	devs := 0
	for i := 0; i < len(x.Trace); i++ {
		c := x.Trace[i]
		if i >= from {
			cost := devs
			if c.Cost {
				cost++
			}
			if cost <= bound {
				for alt := 1; alt < c.N; alt++ {
					if alt == c.Pick {
						continue
					}
					p := append(append([]PrefixEnt{}, picks[:i]...), PrefixEnt{alt, c.N})
					out = append(out, p)
				}
			}
		}
		if c.Cost && c.Pick != 0 {
			devs++
		}
	}
	return out
}

// ExploreSubtree explores, depth first, every execution that extends prefix
// within the deviation bound.
func ExploreSubtree(sc *Scenario, prefix []PrefixEnt, bound int, maxExecs int64, deadline time.Time, st *Stats) {
	stack := [][]PrefixEnt{prefix}
	for len(stack) > 0 {
		if maxExecs > 0 && st.Execs >= maxExecs {
			st.Exhaustive = false
			st.CapHit = fmt.Sprintf("max executions %d", maxExecs)
			return
		}
		if !deadline.IsZero() && time.Now().After(deadline) {
			st.Exhaustive = false
			st.CapHit = "wall-clock budget"
			return
		}
		p := stack[len(stack)-1]
		stack = stack[:len(stack)-1]
		x := RunOnce(sc, p)
		st.account(sc, x)
		if x.Diverged != "" {
			continue
		}
		ch := children(x, len(p), bound)
		// push in reverse so that the earliest/simplest alternative is explored first
		for i := len(ch) - 1; i >= 0; i-- {
			stack = append(stack, ch[i])
		}
	}
}

// Confirm replays a found violation n times and requires identical logs.
func Confirm(sc *Scenario, f *Found, n int) {
	var first string
	for i := 0; i < n; i++ {
		x := RunOnce(sc, f.Prefix)
		ok := false
		for _, v := range x.Violations {
			if v.Clause == f.Clause {
				ok = true
			}
		}
		h := x.LogHash()
		if i == 0 {
			first = h
		}
		if ok && h == first && x.Diverged == "" {
			f.Reproduced++
		}
	}
	f.Flaky = f.Reproduced != n
}

// ExploreCollect explores the whole tree within bound in-process and calls f on every execution.
func ExploreCollect(sc *Scenario, bound int, f func(x *Exec)) *Stats {
	st := newStats(sc, bound)
	stack := [][]PrefixEnt{nil}
	for len(stack) > 0 {
		p := stack[len(stack)-1]
		stack = stack[:len(stack)-1]
		x := RunOnce(sc, p)
		st.account(sc, x)
		f(x)
		if x.Diverged != "" {
			continue
		}
		ch := children(x, len(p), bound)
		for i := len(ch) - 1; i >= 0; i-- {
			stack = append(stack, ch[i])
		}
	}
	return st
}

// Package vrt is a deterministic cooperative runtime: the goroutines of the
// code under test become threads of which exactly one runs at a time; every
// hooked operation (lock, channel, timer, spawn, environment answer) is a
// scheduling point at which an explorer-supplied chooser decides who runs next.
//
// It is injected into the repository under test as the virtual package
// github.com/AliceO2Group/Control/verif_vrt through `go build -overlay`.
package vrt

import (
	"fmt"
	"runtime"
	"sort"
	"strings"
	"time"
)

// OpKind classifies scheduling points (used by point policies).
type OpKind int

const (
	OpStart OpKind = iota
	OpYield
	OpLock
	OpRLock
	OpTryLock
	OpWait  // WaitGroup.Wait / Cond.Wait / Once wait
	OpChan  // send / recv / select
	OpSleep // Sleep
	OpMap   // map access monitor
	OpEnv   // environment answer
	OpJoin
)

func (k OpKind) String() string {
	return [...]string{"start", "yield", "lock", "rlock", "trylock", "wait", "chan", "sleep", "map", "env", "join"}[k]
}

type op struct {
	kind    OpKind
	site    string
	enabled func() bool // nil = always
	// channel-op completion by a partner
	done  bool
	fired int
	val   any
	ok    bool
	cases []selCase
	desc  string
	descF func() string
}

type thread struct {
	id      int
	site    string
	fg      bool
	wake    chan struct{}
	pending *op
	done    bool
	started bool
	// cond wait
	condWoken bool
	blockedOn string
	frozen    bool // see FreezeOthers
}

// Choice is one recorded choice point.
type Choice struct {
	N      int    `json:"n"`
	Pick   int    `json:"pick"`
	Cost   bool   `json:"cost"` // non-zero alternatives cost one deviation
	Label  string `json:"label,omitempty"`
	Thread bool   `json:"thread,omitempty"`
}

// Config parameterises one execution.
type Config struct {
	// Preempt says whether a thread may be voluntarily preempted in front of
	// an *enabled* operation of this kind/site. nil = everywhere.
	Preempt func(kind OpKind, site string) bool
	// FreeSwitchCost: if true, choosing a non-default thread when the running
	// thread is blocked/finished also costs one deviation.
	FreeSwitchCost bool
	// Horizon is the virtual-time limit; timers beyond it never fire.
	Horizon time.Duration
	// MaxSteps bounds the scheduling decisions of one execution (livelock guard).
	MaxSteps int
	// NoLockPoints: a free Mutex/RWMutex is taken without entering the scheduler at all
	// (the policy "free fine-grained locks are not preemption points", independent of the site).
	NoLockPoints bool
	// TimerRace: a due-soonest timer may fire while threads are still enabled
	// (one more alternative, costs a deviation).
	TimerRace bool
	// Frozen, if set and returning true, makes every scheduling / environment
	// choice (everything but ChooseFree) take its default without becoming a
	// choice point: a setup phase that runs on the default schedule only.
	Frozen func() bool
}

// Exec is the state of one execution.
type Exec struct {
	cfg      Config
	epoch    int
	threads  []*thread
	cur      *thread
	clockNS  int64
	timers   []*timerEnt
	timerSeq int
	// idle hooks: run (each as a short-lived background thread) whenever nothing is enabled,
	// before the clock advances to the next timer; idleRan guards against running them twice
	// for the same quiescent moment
	idleHooks []func()
	idleRan   bool
	chans    map[uintptr]*chanState
	chooser  func(n int, cost bool, label string) int
	Trace    []Choice
	Log      []string
	steps    int
	aborting bool
	abortAck chan struct{}
	doneCh   chan struct{}
	finished bool

	// outcome
	Panics    []string
	// EnginePanic: an assertion of the run time itself failed in this execution (message starts with "vrt:").
	// Never a verdict about the code under test: the execution is run again (RunOnce / RunControlled).
	EnginePanic string
	Deadlock  string
	StepLimit bool
	Leaked    []string // blocked background threads at the end (site: wait reason)
	Diverged  string
	MapRace   []string
	Violations []Violation

	mapMon   map[uintptr]*mapAcc
	Points   int
	counters map[string]uint64
}

// Debug prints every scheduling point (replay diagnostics).
var Debug = false

var (
	cur      *Exec
	epochSeq int
)

type abortSentinel struct{}

// Active reports whether a controlled execution is in progress.
func Active() bool { return cur != nil && !cur.finished }

// X returns the current execution (nil outside).
func X() *Exec { return cur }

// Logf appends to the observation log of the current execution.
func Logf(format string, a ...any) {
	if cur != nil {
		cur.Log = append(cur.Log, fmt.Sprintf(format, a...))
	}
}

// Run performs one execution of body under cfg with the given chooser.
// chooser(n, cost, label) returns the alternative in [0,n).
func Run(cfg Config, chooser func(n int, cost bool, label string) int, body func()) *Exec {
	if cfg.MaxSteps == 0 {
		cfg.MaxSteps = 200000
	}
	if cfg.Horizon == 0 {
		cfg.Horizon = 24 * time.Hour
	}
	epochSeq++
	ptrOrder = map[uintptr]int{}
	x := &Exec{cfg: cfg, epoch: epochSeq, chans: map[uintptr]*chanState{}, chooser: chooser,
		abortAck: make(chan struct{}), doneCh: make(chan struct{}), mapMon: map[uintptr]*mapAcc{}}
	cur = x
	t := x.newThread("main", true, body)
	x.cur = t
	t.started = true
	t.pending = nil
	t.wake <- struct{}{}
	select {
	case <-x.doneCh:
	case <-time.After(120 * time.Second):
		// a thread is stuck outside the controlled world: engine error, never a violation
		buf := make([]byte, 1<<20)
		n := runtime.Stack(buf, true)
		fmt.Printf("ENGINE-ERROR: execution stuck for 120s real time (uninstrumented blocking or infinite loop)\n%s\n", buf[:n])
		x.Diverged = "stuck"
		x.finished = true
		return x
	}
	x.finished = true
	return x
}

func (x *Exec) newThread(site string, fg bool, f func()) *thread {
	t := &thread{id: len(x.threads), site: site, fg: fg, wake: make(chan struct{}, 1)}
	t.pending = &op{kind: OpStart, site: site}
	x.threads = append(x.threads, t)
	go func() {
		<-t.wake
		defer x.threadExit(t)
		if x.aborting {
			return
		}
		f()
	}()
	return t
}

func (x *Exec) threadExit(t *thread) {
	r := recover()
	t.done = true
	t.pending = nil
	if r != nil {
		if _, ok := r.(abortSentinel); !ok {
			if msg := fmt.Sprint(r); strings.HasPrefix(msg, "vrt:") {
				if x.EnginePanic == "" {
					x.EnginePanic = fmt.Sprintf("%s in thread %d (%s)\n%s", msg, t.id, t.site, trimStack())
				}
				if !x.aborting {
					x.finish()
					return
				}
			} else {
				x.Panics = append(x.Panics, fmt.Sprintf("panic in thread %d (%s): %v\n%s", t.id, t.site, r, trimStack()))
			}
		}
	}
	if x.aborting {
		x.abortAck <- struct{}{}
		return
	}
	if len(x.Panics) > 0 {
		x.finish()
		return
	}
	// hand over
	next := x.pick()
	if next == nil {
		x.finish()
		return
	}
	x.cur = next
	next.wake <- struct{}{}
}

func trimStack() string {
	buf := make([]byte, 16384)
	n := runtime.Stack(buf, false)
	lines := strings.Split(string(buf[:n]), "\n")
	var out []string
	for i := 0; i < len(lines); i++ {
		l := lines[i]
		if strings.Contains(l, "verif_vrt") || strings.Contains(l, "runtime/") || strings.HasPrefix(l, "goroutine ") || strings.HasPrefix(l, "panic(") {
			if strings.HasPrefix(strings.TrimSpace(l), "/") || strings.Contains(l, ".go:") {
				continue
			}
			i++ // skip its file line
			continue
		}
		out = append(out, l)
		if len(out) > 24 {
			break
		}
	}
	return strings.Join(out, "\n")
}

// finish ends the execution: unwinds all parked threads, one at a time.
func (x *Exec) finish() {
	x.aborting = true
	for _, t := range x.threads {
		if !t.done {
			if t.started && !t.fg && !t.frozen {
				x.Leaked = append(x.Leaked, t.site+": "+describe(t))
			}
			t.wake <- struct{}{}
			<-x.abortAck
		}
	}
	sort.Strings(x.Leaked)
	close(x.doneCh)
}

func describe(t *thread) string {
	if t.pending == nil {
		return "running"
	}
	if t.pending.desc == "" && t.pending.descF != nil {
		t.pending.desc = t.pending.descF()
	}
	if t.pending.desc != "" {
		return t.pending.kind.String() + " " + t.pending.desc + " @" + t.pending.site
	}
	return t.pending.kind.String() + " @" + t.pending.site
}

// noPreempt: free locks skip the scheduler entirely when the harness asked for it.
func (x *Exec) noPreempt(k OpKind) bool {
	return x.cfg.NoLockPoints && (k == OpLock || k == OpRLock)
}

// point is the heart: the current thread announces op and yields to the scheduler.
func (x *Exec) point(o *op) {
	if x.aborting {
		panic(abortSentinel{})
	}
	t := x.cur
	t.pending = o
	x.Points++
	if Debug {
		d := o.desc
		if d == "" && o.descF != nil {
			d = o.descF()
		}
		fmt.Printf("  [t%d] at %s %s @%s\n", t.id, o.kind, d, o.site)
	}
	next := x.pick()
	if next == nil {
		// nothing can run: end or deadlock. The current thread is parked too.
		x.finishFromParked(t)
		return
	}
	if next != t {
		x.cur = next
		next.wake <- struct{}{}
		<-t.wake
		if x.aborting {
			panic(abortSentinel{})
		}
	}
	t.pending = nil
}

// finishFromParked: called by a thread that is itself blocked when the
// execution must end. It runs finish() in a helper goroutine because finish
// needs this thread to unwind as well.
func (x *Exec) finishFromParked(t *thread) {
	go x.finish()
	<-t.wake
	panic(abortSentinel{})
}

func (o *op) isEnabled() bool {
	if o == nil {
		return false
	}
	if o.done {
		return true
	}
	if o.enabled == nil {
		return true
	}
	return o.enabled()
}

// pick decides which thread runs next; nil = nothing can run (end / deadlock).
func (x *Exec) pick() *thread {
	for {
		x.steps++
		if x.steps > x.cfg.MaxSteps {
			x.StepLimit = true
			return nil
		}
		var en []*thread
		c := x.cur
		curEnabled := c != nil && !c.done && !c.frozen && c.pending.isEnabled()
		if curEnabled {
			en = append(en, c)
		}
		for _, t := range x.threads {
			if t == c || t.done || t.frozen {
				continue
			}
			if t.pending.isEnabled() {
				en = append(en, t)
			}
		}
		if len(en) == 0 {
			if len(x.idleHooks) > 0 && !x.idleRan && x.haveDueableTimer() {
				x.idleRan = true
				for _, f := range x.idleHooks {
					x.newThread("idle-hook", false, f)
				}
				continue
			}
			x.idleRan = false
			if x.fireNextTimers() {
				continue
			}
			x.classifyEnd()
			return nil
		}
		// all foreground threads finished and horizon semantics: keep running
		// background threads until quiescence (they may still produce effects).
		if curEnabled && x.cfg.Preempt != nil && !x.cfg.Preempt(c.pending.kind, c.pending.site) {
			return c
		}
		nAlt := len(en)
		timerAlt := false
		if x.cfg.TimerRace && x.haveDueableTimer() {
			nAlt++
			timerAlt = true
		}
		if nAlt == 1 {
			en[0].started = true
			return en[0]
		}
		cost := curEnabled || x.cfg.FreeSwitchCost
		label := "threads"
		if Debug {
			var lb strings.Builder
			for i, t := range en {
				if i > 0 {
					lb.WriteByte(' ')
				}
				fmt.Fprintf(&lb, "%d:%s", t.id, t.pending.kind)
			}
			if timerAlt {
				lb.WriteString(" timer")
			}
			label = lb.String()
		}
		k := x.choose(nAlt, cost, label, true)
		if timerAlt && k == nAlt-1 {
			x.fireNextTimers()
			continue
		}
		en[k].started = true
		return en[k]
	}
}

func (x *Exec) choose(n int, cost bool, label string, thread bool) int {
	if (cost || thread) && x.cfg.Frozen != nil && x.cfg.Frozen() {
		return 0
	}
	k := x.chooser(n, cost, label)
	if k < 0 || k >= n {
		x.Diverged = fmt.Sprintf("choice %d out of range %d at point %d (%s)", k, n, len(x.Trace), label)
		k = 0
	}
	x.Trace = append(x.Trace, Choice{N: n, Pick: k, Cost: cost, Label: label, Thread: thread})
	return k
}

func (x *Exec) classifyEnd() {
	var stuck []string
	for _, t := range x.threads {
		if !t.done && t.fg && !t.frozen {
			stuck = append(stuck, fmt.Sprintf("thread %d (%s) blocked: %s", t.id, t.site, describe(t)))
		}
	}
	if len(stuck) > 0 && !x.StepLimit {
		for _, t := range x.threads {
			if !t.done && !t.fg && t.started && !t.frozen {
				stuck = append(stuck, fmt.Sprintf("  bg thread %d (%s) blocked: %s", t.id, t.site, describe(t)))
			}
		}
		x.Deadlock = strings.Join(stuck, "\n")
	}
}

// Choose is an environment choice: alternative 0 is the default answer, any
// other one costs a deviation.
func Choose(n int, label string) int {
	x := cur
	if x == nil || x.finished || n <= 1 {
		return 0
	}
	return x.choose(n, true, label, false)
}

// ChooseFree is a choice whose alternatives all cost nothing (input enumeration).
func ChooseFree(n int, label string) int {
	x := cur
	if x == nil || x.finished || n <= 1 {
		return 0
	}
	return x.choose(n, false, label, false)
}

// Go spawns a background thread (what a `go` statement in the code under test becomes).
func Go(site string, f func()) {
	x := cur
	if x == nil || x.finished {
		go f()
		return
	}
	if x.aborting {
		return
	}
	t := x.newThread(site, false, f)
	if OnSpawn != nil {
		OnSpawn(site, t.id)
	}
}

// OnSpawn, when set by a harness, observes every background spawn (site, thread id).
var OnSpawn func(site string, tid int)

// OnIdle registers f for the current execution: it is run as a background thread at every
// quiescent moment (no thread enabled) just before virtual time advances to the next timer.
// Meant for observers (an API client polling while the system waits).
func OnIdle(f func()) {
	x := cur
	if x == nil || x.finished {
		return
	}
	x.idleHooks = append(x.idleHooks, f)
}

// GoFG spawns a foreground thread (must finish for the execution to be complete).
func GoFG(site string, f func()) {
	x := cur
	if x == nil || x.finished {
		go f()
		return
	}
	x.newThread(site, true, f)
}

// Yield is a pure scheduling point.
func Yield(site string) {
	x := cur
	if x == nil || x.finished {
		return
	}
	x.point(&op{kind: OpYield, site: site})
}

// WaitUntil parks the current thread until cond holds (evaluated by the scheduler).
func WaitUntil(site string, cond func() bool) {
	x := cur
	if x == nil || x.finished {
		return
	}
	x.point(&op{kind: OpJoin, site: site, enabled: cond})
}

// Quiesce parks the calling thread until no other thread is enabled and no
// timer is pending before the given virtual deadline (relative). It lets a
// driver wait for "the system has settled".
func Quiesce(site string) {
	x := cur
	if x == nil || x.finished {
		return
	}
	me := x.cur
	x.point(&op{kind: OpJoin, site: site, desc: "quiesce", enabled: func() bool {
		for _, t := range x.threads {
			if t == me || t.done || t.frozen {
				continue
			}
			if t.pending != nil && t.pending.kind == OpJoin && t.pending.desc == "quiesce" {
				continue
			}
			if t.pending.isEnabled() {
				return false
			}
		}
		return true
	}})
}

var callerCache = map[uintptr]string{}

func caller(skip int) string {
	var pcs [1]uintptr
	if runtime.Callers(skip+1, pcs[:]) == 0 {
		return "?"
	}
	if s, ok := callerCache[pcs[0]]; ok {
		return s
	}
	s := callerSlow(pcs[0])
	callerCache[pcs[0]] = s
	return s
}

func callerSlow(pc uintptr) string {
	fr, _ := runtime.CallersFrames([]uintptr{pc}).Next()
	f, l := fr.File, fr.Line
	if f == "" {
		return "?"
	}
	if i := strings.LastIndex(f, "/"); i >= 0 {
		if j := strings.LastIndex(f[:i], "/"); j >= 0 {
			f = f[j+1:]
		}
	}
	return fmt.Sprintf("%s:%d", f, l)
}

// Counter returns 1,2,3,... per name, restarting with every execution
// (deterministic ids for the code under test).
func Counter(name string) uint64 {
	x := cur
	if x == nil {
		return 0
	}
	if x.counters == nil {
		x.counters = map[string]uint64{}
	}
	x.counters[name]++
	return x.counters[name]
}

var tokenFeed chan struct{}

func tokens() <-chan struct{} {
	if tokenFeed == nil {
		// buffered: a probe of the real channel finds tokens even if the feeder goroutine
		// has not been scheduled since the last one was taken (loaded machine)
		tokenFeed = make(chan struct{}, 256)
		for i := 0; i < cap(tokenFeed); i++ {
			tokenFeed <- struct{}{}
		}
		go func() { // real feeder goroutine, outside the controlled world: a token is always available
			for {
				tokenFeed <- struct{}{}
			}
		}()
	}
	return tokenFeed
}

// ClosedTokens3 replaces mesos-go's backoff.Notifier: a token is always available
// at once (no real-time backoff inside the controlled world).
func ClosedTokens3(_, _ time.Duration, _ <-chan struct{}) <-chan struct{} { return tokens() }

// ClosedTokens4 replaces backoff.BurstNotifier.
func ClosedTokens4(_ int, _, _ time.Duration, _ <-chan struct{}) <-chan struct{} { return tokens() }

// ThreadID returns the id of the running thread (-1 outside).
func ThreadID() int {
	if cur == nil || cur.cur == nil {
		return -1
	}
	return cur.cur.id
}

// NumThreadsAlive is for diagnostics.
func (x *Exec) ThreadSummary() []string {
	var out []string
	for _, t := range x.threads {
		st := "done"
		if !t.done {
			st = describe(t)
		}
		out = append(out, fmt.Sprintf("%d %s fg=%v %s", t.id, t.site, t.fg, st))
	}
	return out
}

package vrt

import "fmt"

// Locker mirrors sync.Locker.
type Locker interface {
	Lock()
	Unlock()
}

// Mutex replaces sync.Mutex.
type Mutex struct {
	epoch  int
	locked bool
	holder int
}

func (m *Mutex) fix(x *Exec) {
	if m.epoch != x.epoch {
		m.epoch = x.epoch
		m.locked = false
	}
}

func (m *Mutex) Lock() {
	x := cur
	if x == nil || x.finished {
		m.locked = true
		return
	}
	if x.aborting {
		panic(abortSentinel{})
	}
	m.fix(x)
	if !m.locked && x.noPreempt(OpLock) {
		m.locked = true
		m.holder = x.cur.id
		return
	}
	x.point(&op{kind: OpLock, site: caller(2), descF: func() string { return fmt.Sprintf("%p", m) }, enabled: func() bool { m.fix(x); return !m.locked }})
	m.locked = true
	m.holder = x.cur.id
}

func (m *Mutex) TryLock() bool {
	x := cur
	if x == nil || x.finished {
		if m.locked {
			return false
		}
		m.locked = true
		return true
	}
	if x.aborting {
		panic(abortSentinel{})
	}
	m.fix(x)
	x.point(&op{kind: OpTryLock, site: caller(2)})
	if m.locked {
		return false
	}
	m.locked = true
	m.holder = x.cur.id
	return true
}

func (m *Mutex) Unlock() {
	x := cur
	if x == nil || x.finished {
		m.locked = false
		return
	}
	if x.aborting {
		return
	}
	m.fix(x)
	if !m.locked {
		panic("sync: unlock of unlocked mutex")
	}
	m.locked = false
}

// RWMutex replaces sync.RWMutex, with Go's writer preference.
type RWMutex struct {
	epoch    int
	writer   bool
	readers  int
	pendingW int // writers that announced themselves and wait for readers to leave
}

func (m *RWMutex) fix(x *Exec) {
	if m.epoch != x.epoch {
		m.epoch = x.epoch
		m.writer = false
		m.readers = 0
		m.pendingW = 0
	}
}

func (m *RWMutex) Lock() {
	x := cur
	if x == nil || x.finished {
		m.writer = true
		return
	}
	if x.aborting {
		panic(abortSentinel{})
	}
	m.fix(x)
	if !m.writer && m.pendingW == 0 && m.readers == 0 && x.noPreempt(OpLock) {
		m.writer = true
		return
	}
	site := caller(2)
	// phase 1: get past other writers
	x.point(&op{kind: OpLock, site: site, descF: func() string { return fmt.Sprintf("%p", m) }, enabled: func() bool { m.fix(x); return !m.writer && m.pendingW == 0 }})
	if m.readers > 0 {
		// phase 2: announced; new readers are held off until we are through
		m.pendingW++
		defer func() {
			// if unwound by abort the counter does not matter any more
		}()
		x.point(&op{kind: OpLock, site: site, descF: func() string { return fmt.Sprintf("%p (writer waiting for %d readers)", m, m.readers) }, enabled: func() bool { return m.readers == 0 }})
		m.pendingW--
	}
	m.writer = true
}

func (m *RWMutex) TryLock() bool {
	x := cur
	if x == nil || x.finished {
		if m.writer || m.readers > 0 {
			return false
		}
		m.writer = true
		return true
	}
	if x.aborting {
		panic(abortSentinel{})
	}
	m.fix(x)
	x.point(&op{kind: OpTryLock, site: caller(2)})
	if m.writer || m.readers > 0 || m.pendingW > 0 {
		return false
	}
	m.writer = true
	return true
}

func (m *RWMutex) Unlock() {
	x := cur
	if x == nil || x.finished {
		m.writer = false
		return
	}
	if x.aborting {
		return
	}
	m.fix(x)
	if !m.writer {
		panic("sync: Unlock of unlocked RWMutex")
	}
	m.writer = false
}

func (m *RWMutex) RLock() {
	x := cur
	if x == nil || x.finished {
		m.readers++
		return
	}
	if x.aborting {
		panic(abortSentinel{})
	}
	m.fix(x)
	if !m.writer && m.pendingW == 0 && x.noPreempt(OpRLock) {
		m.readers++
		return
	}
	x.point(&op{kind: OpRLock, site: caller(2), descF: func() string { return fmt.Sprintf("%p", m) }, enabled: func() bool { m.fix(x); return !m.writer && m.pendingW == 0 }})
	m.readers++
}

func (m *RWMutex) TryRLock() bool {
	x := cur
	if x == nil || x.finished {
		if m.writer {
			return false
		}
		m.readers++
		return true
	}
	if x.aborting {
		panic(abortSentinel{})
	}
	m.fix(x)
	x.point(&op{kind: OpTryLock, site: caller(2)})
	if m.writer || m.pendingW > 0 {
		return false
	}
	m.readers++
	return true
}

func (m *RWMutex) RUnlock() {
	x := cur
	if x == nil || x.finished {
		m.readers--
		return
	}
	if x.aborting {
		return
	}
	m.fix(x)
	if m.readers <= 0 {
		panic("sync: RUnlock of unlocked RWMutex")
	}
	m.readers--
}

// RLocker mirrors (*sync.RWMutex).RLocker.
func (m *RWMutex) RLocker() Locker { return (*rlocker)(m) }

type rlocker RWMutex

func (r *rlocker) Lock()   { (*RWMutex)(r).RLock() }
func (r *rlocker) Unlock() { (*RWMutex)(r).RUnlock() }

// WaitGroup replaces sync.WaitGroup.
type WaitGroup struct {
	epoch int
	n     int
}

func (w *WaitGroup) fix(x *Exec) {
	if w.epoch != x.epoch {
		w.epoch = x.epoch
		w.n = 0
	}
}

func (w *WaitGroup) Add(d int) {
	x := cur
	if x == nil || x.finished {
		w.n += d
		return
	}
	if x.aborting {
		return
	}
	w.fix(x)
	w.n += d
	if w.n < 0 {
		panic("sync: negative WaitGroup counter")
	}
}

func (w *WaitGroup) Done() { w.Add(-1) }

func (w *WaitGroup) Wait() {
	x := cur
	if x == nil || x.finished {
		return
	}
	if x.aborting {
		panic(abortSentinel{})
	}
	w.fix(x)
	x.point(&op{kind: OpWait, site: caller(2), desc: "waitgroup", enabled: func() bool { w.fix(x); return w.n == 0 }})
}

// Once replaces sync.Once.
type Once struct {
	epoch   int
	done    bool
	running bool
}

func (o *Once) Do(f func()) {
	x := cur
	if x == nil || x.finished {
		if !o.done {
			o.done = true
			f()
		}
		return
	}
	if x.aborting {
		panic(abortSentinel{})
	}
	// NB: a Once in a package-level variable keeps its state across executions
	// on purpose (that is what the real program does within one process), unless
	// the harness resets the variable.
	x.point(&op{kind: OpWait, site: caller(2), desc: "once", enabled: func() bool { return !o.running }})
	if o.done {
		return
	}
	o.running = true
	defer func() { o.running = false; o.done = true }()
	f()
}

// Cond replaces sync.Cond.
type Cond struct {
	L       Locker
	epoch   int
	waiters []*thread
}

func NewCond(l Locker) *Cond { return &Cond{L: l} }

func (c *Cond) fix(x *Exec) {
	if c.epoch != x.epoch {
		c.epoch = x.epoch
		c.waiters = nil
	}
}

func (c *Cond) Wait() {
	x := cur
	if x == nil || x.finished {
		panic("vrt: Cond.Wait outside a controlled execution")
	}
	if x.aborting {
		panic(abortSentinel{})
	}
	c.fix(x)
	t := x.cur
	t.condWoken = false
	c.waiters = append(c.waiters, t)
	c.L.Unlock()
	x.point(&op{kind: OpWait, site: caller(2), desc: "cond", enabled: func() bool { return t.condWoken }})
	c.L.Lock()
}

func (c *Cond) Signal() {
	x := cur
	if x == nil || x.finished || x.aborting {
		return
	}
	c.fix(x)
	if len(c.waiters) > 0 {
		c.waiters[0].condWoken = true
		c.waiters = c.waiters[1:]
	}
}

func (c *Cond) Broadcast() {
	x := cur
	if x == nil || x.finished || x.aborting {
		return
	}
	c.fix(x)
	for _, t := range c.waiters {
		t.condWoken = true
	}
	c.waiters = nil
}

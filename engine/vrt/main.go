package vrt

import (
	"bufio"
	"encoding/json"
	"flag"
	"fmt"
	"os"
	"os/exec"
	"path"
	"runtime"
	"runtime/pprof"
	"sort"
	"strings"
	"sync"
	"time"
)

// Report is what a harness binary writes with -out: one entry per scenario.
type Report struct {
	Prop      string         `json:"prop"`
	Tier      string         `json:"tier"`
	Scenarios []*Stats       `json:"scenarios"`
	Direct    []*DirectStats `json:"direct,omitempty"`
	WallS     float64        `json:"wall_s"`
}

// DirectStats is the JSON form of a DirectReport.
type DirectStats struct {
	Scenario    string           `json:"scenario"`
	Evaluations int64            `json:"evaluations"`
	Distinct    map[string]int64 `json:"distinct_classes"`
	Violations  []Violation      `json:"violations,omitempty"`
	Samples     []string         `json:"samples,omitempty"`
	Notes       []string         `json:"notes,omitempty"`
	Exhaustive  bool             `json:"exhaustive"`
	WallS       float64          `json:"wall_s"`
}

type workReq struct {
	Prefix []PrefixEnt `json:"prefix"`
}
type workResp struct {
	Stats    *Stats         `json:"stats"`
	Outcomes map[string]int `json:"outcomes"`
}

var atExit []func()

// AtExit registers a cleanup run when Main returns (fixture directories etc.).
func AtExit(f func()) { atExit = append(atExit, f) }

// Main is the entry point of every harness binary.
func Main(all []*Scenario) {
	defer func() {
		for _, f := range atExit {
			f()
		}
	}()
	mainImpl(all)
}

func mainImpl(all []*Scenario) {
	var (
		fList    = flag.Bool("list", false, "list scenarios")
		fScen    = flag.String("scenario", "", "comma-separated scenario names (default: all)")
		fTier    = flag.String("tier", "quick", "quick|thorough")
		fBound   = flag.Int("bound", -1, "override deviation bound")
		fWorkers = flag.Int("workers", runtime.NumCPU(), "worker processes")
		fOut     = flag.String("out", "", "write JSON report here")
		fReplay  = flag.String("replay", "", "replay file (JSON Found)")
		fWorker  = flag.Bool("worker", false, "internal: worker mode")
		fDead    = flag.Int64("deadline", 0, "internal: unix deadline")
		fBudget  = flag.Int("budget", 0, "override wall budget per scenario (s)")
		fVerbose = flag.Bool("v", false, "verbose")
		fPicks   = flag.String("picks", "", "run once with these comma-separated picks and print the log")
	)
	fProf := flag.String("cpuprofile", "", "write a CPU profile")
	fKnown := flag.String("known", "", "comma-separated glob patterns scenario:clause of known findings: they are reported but do not stop the bound iteration")
	flag.Parse()
	if *fKnown != "" {
		knownGlobs = strings.Split(*fKnown, ",")
	}
	runtime.GOMAXPROCS(2)
	if *fProf != "" {
		f, _ := os.Create(*fProf)
		pprof.StartCPUProfile(f)
		defer pprof.StopCPUProfile()
	}
	byName := map[string]*Scenario{}
	for _, s := range all {
		byName[s.Name] = s
	}
	if *fList {
		for _, s := range all {
			fmt.Printf("%s\t%s\t%s\n", s.Name, s.Prop, s.Doc)
		}
		return
	}
	var sel []*Scenario
	if *fScen == "" {
		sel = all
	} else {
		for _, n := range strings.Split(*fScen, ",") {
			s := byName[n]
			if s == nil {
				fmt.Fprintf(os.Stderr, "unknown scenario %q\n", n)
				os.Exit(2)
			}
			sel = append(sel, s)
		}
	}
	if *fReplay != "" {
		rc := replayFile(byName, *fReplay, *fTier)
		for _, f := range atExit {
			f()
		}
		os.Exit(rc)
	}
	if os.Getenv("VRT_DEBUG") != "" {
		Debug = true
	}
	if *fPicks != "" {
		var p []PrefixEnt
		for _, f := range strings.Split(*fPicks, ",") {
			var k int
			fmt.Sscanf(f, "%d", &k)
			p = append(p, PrefixEnt{k, 0})
		}
		runPrint(sel[0], p, true)
		return
	}
	if *fWorker {
		workerLoop(sel[0], *fTier, *fBound, *fDead)
		return
	}
	t0 := time.Now()
	rep := &Report{Tier: *fTier}
	for _, sc := range sel {
		rep.Prop = sc.Prop
		b := sc.Quick
		if *fTier == "thorough" {
			b = sc.Thorough
			if b == (Bounds{}) {
				b = sc.Quick
			}
		}
		if *fBound >= 0 {
			b.Dev = *fBound
		}
		if *fBudget > 0 {
			b.Seconds = *fBudget
		}
		if b.Seconds == 0 {
			b.Seconds = 100
		}
		if sc.Direct != nil {
			ts := time.Now()
			r := &DirectReport{Exhaustive: true}
			sc.Direct(r, *fTier)
			ds := &DirectStats{Scenario: sc.Name, Evaluations: r.Evaluations, Distinct: r.Distinct, Violations: r.Violations, Samples: r.Samples, Notes: r.Notes, Exhaustive: r.Exhaustive, WallS: time.Since(ts).Seconds()}
			if len(ds.Distinct) > 64 {
				// keep the report small: largest classes only, plus a count
				type kv struct {
					k string
					v int64
				}
				var l []kv
				for k, v := range ds.Distinct {
					l = append(l, kv{k, v})
				}
				sort.Slice(l, func(i, j int) bool { return l[i].v > l[j].v || (l[i].v == l[j].v && l[i].k < l[j].k) })
				m := map[string]int64{"__classes_total": int64(len(l))}
				for _, e := range l[:63] {
					m[e.k] = e.v
				}
				ds.Distinct = m
			}
			rep.Direct = append(rep.Direct, ds)
			if *fVerbose {
				fmt.Fprintf(os.Stderr, "%s: direct evaluations=%d classes=%d violations=%d %.1fs\n", sc.Name, ds.Evaluations, len(r.Distinct), len(ds.Violations), ds.WallS)
			}
			continue
		}
		st := exploreScenario(sc, b, *fTier, *fWorkers, *fVerbose)
		rep.Scenarios = append(rep.Scenarios, st)
	}
	rep.WallS = time.Since(t0).Seconds()
	if *fOut != "" {
		js, _ := json.MarshalIndent(rep, "", " ")
		os.WriteFile(*fOut, js, 0o644)
	}
	for _, st := range rep.Scenarios {
		fmt.Printf("scenario=%s bound=%d completed=%d execs=%d nontrivial=%d outcomes=%d maxpoints=%d exhaustive=%v violations=%d wall=%.1fs %s\n",
			st.Scenario, st.Bound, st.BoundDone, st.Execs, st.NonTrivial, st.NOutcomes, st.MaxPoints, st.Exhaustive, len(st.Found), st.WallS, st.CapHit)
		for _, f := range st.Found {
			fmt.Printf("  FOUND clause=%q dev=%d reproduced=%d flaky=%v picks=%s\n    %s\n", f.Clause, f.Deviations, f.Reproduced, f.Flaky, picksString(f.Prefix), strings.ReplaceAll(firstLines(f.Detail, 12), "\n", "\n    "))
		}
		for _, d := range st.Divergences {
			fmt.Printf("  DIVERGENCE %s\n", d)
		}
	}
	if EngineRetries > 0 {
		fmt.Printf("ENGINE-NOTE: %d execution(s) were run again after an assertion of the run time failed (never a verdict)\n", EngineRetries)
	}
	for _, ds := range rep.Direct {
		fmt.Printf("scenario=%s direct evaluations=%d classes=%d exhaustive=%v violations=%d wall=%.1fs\n", ds.Scenario, ds.Evaluations, len(ds.Distinct), ds.Exhaustive, len(ds.Violations), ds.WallS)
		for _, v := range ds.Violations {
			fmt.Printf("  FOUND clause=%q\n    %s\n", v.Clause, strings.ReplaceAll(firstLines(v.Detail, 8), "\n", "\n    "))
		}
	}
}

func firstLines(s string, n int) string {
	l := strings.Split(s, "\n")
	if len(l) > n {
		l = l[:n]
	}
	return strings.Join(l, "\n")
}

func runPrint(sc *Scenario, p []PrefixEnt, relax bool) *Exec {
	if relax {
		// arities unknown: accept whatever
		pos := 0
		if sc.Setup != nil {
			sc.Setup()
		}
		x := Run(sc.Cfg, func(n int, cost bool, label string) int {
			k := 0
			if pos < len(p) {
				k = p[pos].Pick
			}
			pos++
			if k >= n {
				k = 0
			}
			return k
		}, sc.Body)
		if sc.Check != nil {
			x.Violations = append(x.Violations, sc.Check(x)...)
		}
		printExec(x)
		return x
	}
	x := RunOnce(sc, p)
	printExec(x)
	return x
}

func printExec(x *Exec) {
	for _, l := range x.Log {
		fmt.Println("LOG", l)
	}
	for i, c := range x.Trace {
		fmt.Printf("CHOICE %d n=%d pick=%d cost=%v %s\n", i, c.N, c.Pick, c.Cost, c.Label)
	}
	for _, p := range x.Panics {
		fmt.Println("PANIC", p)
	}
	if x.Deadlock != "" {
		fmt.Println("DEADLOCK", x.Deadlock)
	}
	for _, l := range x.Leaked {
		fmt.Println("LEAKED", l)
	}
	for _, v := range x.Violations {
		fmt.Printf("VIOLATION-CLAUSE %s: %s\n", v.Clause, v.Detail)
	}
	if x.Diverged != "" {
		fmt.Println("DIVERGED", x.Diverged)
	}
	for _, l := range x.ThreadSummary() {
		fmt.Println("THREAD", l)
	}
	fmt.Printf("points=%d choices=%d vtime=%s\n", x.Points, len(x.Trace), time.Duration(x.clockNS))
}

func replayFile(byName map[string]*Scenario, path string, tier string) int {
	b, err := os.ReadFile(path)
	if err != nil {
		fmt.Fprintln(os.Stderr, err)
		return 2
	}
	var f Found
	if err := json.Unmarshal(b, &f); err != nil {
		fmt.Fprintln(os.Stderr, err)
		return 2
	}
	sc := byName[f.Scenario]
	if sc == nil {
		fmt.Fprintf(os.Stderr, "unknown scenario %q\n", f.Scenario)
		return 2
	}
	if sc.Direct != nil {
		// product enumeration: the witness is an input, found again by re-running the enumeration
		r := &DirectReport{Exhaustive: true}
		sc.Direct(r, tier)
		for _, v := range r.Violations {
			if v.Clause == f.Clause {
				fmt.Printf("VIOLATION-CLAUSE %s: %s\nREPRODUCED %s\n", v.Clause, v.Detail, f.Clause)
				return 1
			}
		}
		fmt.Println("NOT-REPRODUCED")
		return 0
	}
	x := runPrint(sc, f.Prefix, false)
	for _, v := range x.Violations {
		if v.Clause == f.Clause {
			fmt.Printf("REPRODUCED %s\n", f.Clause)
			return 1
		}
	}
	fmt.Println("NOT-REPRODUCED")
	return 0
}

func workerLoop(sc *Scenario, tier string, bound int, deadline int64) {
	in := bufio.NewReaderSize(os.Stdin, 1<<20)
	out := bufio.NewWriter(os.Stdout)
	var dl time.Time
	if deadline > 0 {
		dl = time.Unix(deadline, 0)
	}
	for {
		line, err := in.ReadBytes('\n')
		if len(line) > 0 {
			var rq workReq
			if json.Unmarshal(line, &rq) == nil {
				st := newStats(sc, bound)
				ExploreSubtree(sc, rq.Prefix, bound, 0, dl, st)
				js, _ := json.Marshal(workResp{Stats: st, Outcomes: st.Outcomes})
				out.Write(js)
				out.WriteByte('\n')
				out.Flush()
			}
		}
		if err != nil {
			return
		}
	}
}

func exploreScenario(sc *Scenario, b Bounds, tier string, workers int, verbose bool) *Stats {
	t0 := time.Now()
	deadline := t0.Add(time.Duration(b.Seconds) * time.Second)
	var last *Stats
	for bound := 0; bound <= b.Dev; bound++ {
		st := exploreAtBound(sc, bound, b, tier, workers, deadline)
		if verbose {
			fmt.Fprintf(os.Stderr, "%s: bound %d execs=%d outcomes=%d exhaustive=%v found=%d (%.1fs)\n", sc.Name, bound, st.Execs, len(st.Outcomes), st.Exhaustive, len(st.Found), time.Since(t0).Seconds())
		}
		done := -1
		if last != nil {
			done = last.BoundDone
		}
		if st.Exhaustive {
			st.BoundDone = bound
		} else {
			st.BoundDone = done
		}
		// keep the deepest run; carry over violations found at lower bounds
		if last != nil {
			have := map[string]bool{}
			for _, f := range st.Found {
				have[f.Clause] = true
			}
			for _, f := range last.Found {
				if !have[f.Clause] {
					st.Found = append(st.Found, f)
				}
			}
		}
		last = st
		if !st.Exhaustive || hasUnknown(st.Found) {
			break
		}
	}
	last.Bound = b.Dev
	last.NOutcomes = len(last.Outcomes)
	// determinism obligations
	for i := range last.Found {
		Confirm(sc, &last.Found[i], 5)
	}
	x1 := RunOnce(sc, nil)
	x2 := RunOnce(sc, nil)
	last.ReplayChecked = x1.LogHash() == x2.LogHash() && len(x1.Trace) == len(x2.Trace)
	if !last.ReplayChecked {
		last.Divergences = append(last.Divergences, "default schedule replayed twice gave different observations")
		last.Exhaustive = false
	}
	last.WallS = time.Since(t0).Seconds()
	return last
}

func exploreAtBound(sc *Scenario, bound int, b Bounds, tier string, workers int, deadline time.Time) *Stats {
	st := newStats(sc, bound)
	if workers <= 1 {
		ExploreSubtree(sc, nil, bound, int64(b.MaxExecs), deadline, st)
		return st
	}
	// expand the root (and one more level if the frontier is small)
	frontier := [][]PrefixEnt{nil}
	for level := 0; level < 2; level++ {
		var next [][]PrefixEnt
		for _, p := range frontier {
			x := RunOnce(sc, p)
			st.account(sc, x)
			if x.Diverged != "" {
				continue
			}
			next = append(next, children(x, len(p), bound)...)
		}
		frontier = next
		if len(frontier) >= workers*8 || len(frontier) == 0 {
			break
		}
	}
	if len(frontier) == 0 {
		return st
	}
	if len(frontier) < 4 {
		for _, p := range frontier {
			ExploreSubtree(sc, p, bound, int64(b.MaxExecs), deadline, st)
		}
		return st
	}
	if workers > len(frontier) {
		workers = len(frontier)
	}
	self, _ := os.Executable()
	var mu sync.Mutex
	next := 0
	var wg sync.WaitGroup
	for w := 0; w < workers; w++ {
		wg.Add(1)
		go func() {
			defer wg.Done()
			cmd := exec.Command(self, "-worker", "-scenario", sc.Name, "-tier", tier, "-bound", fmt.Sprint(bound), "-deadline", fmt.Sprint(deadline.Unix()))
			cmd.Env = append(os.Environ(), "GOMAXPROCS=2")
			stdin, _ := cmd.StdinPipe()
			stdout, _ := cmd.StdoutPipe()
			cmd.Stderr = os.Stderr
			if err := cmd.Start(); err != nil {
				mu.Lock()
				st.Exhaustive = false
				st.CapHit = "worker start failed: " + err.Error()
				mu.Unlock()
				return
			}
			rd := bufio.NewReaderSize(stdout, 1<<20)
			for {
				mu.Lock()
				if next >= len(frontier) || (b.MaxExecs > 0 && st.Execs >= int64(b.MaxExecs)) {
					if next < len(frontier) {
						st.Exhaustive = false
						st.CapHit = fmt.Sprintf("max executions %d", b.MaxExecs)
					}
					mu.Unlock()
					break
				}
				p := frontier[next]
				next++
				mu.Unlock()
				js, _ := json.Marshal(workReq{Prefix: p})
				stdin.Write(append(js, '\n'))
				line, err := rd.ReadBytes('\n')
				if err != nil {
					mu.Lock()
					st.Exhaustive = false
					st.CapHit = "worker died (engine error): " + err.Error()
					mu.Unlock()
					break
				}
				var rs workResp
				if json.Unmarshal(line, &rs) == nil && rs.Stats != nil {
					rs.Stats.Outcomes = rs.Outcomes
					if rs.Stats.Outcomes == nil {
						rs.Stats.Outcomes = map[string]int{}
					}
					mu.Lock()
					st.merge(rs.Stats)
					mu.Unlock()
				}
			}
			stdin.Close()
			cmd.Wait()
		}()
	}
	wg.Wait()
	// deduplicate found by clause
	seen := map[string]bool{}
	var ff []Found
	sort.SliceStable(st.Found, func(i, j int) bool { return st.Found[i].Deviations < st.Found[j].Deviations })
	for _, f := range st.Found {
		if !seen[f.Clause] {
			seen[f.Clause] = true
			ff = append(ff, f)
		}
	}
	st.Found = ff
	return st
}

var knownGlobs []string

// hasUnknown: is there a found violation that is not a listed known finding?
func hasUnknown(found []Found) bool {
	for _, f := range found {
		k := false
		for _, g := range knownGlobs {
			if ok, _ := path.Match(g, f.Scenario+":"+f.Clause); ok || globMatch(g, f.Scenario+":"+f.Clause) {
				k = true
			}
		}
		if !k {
			return true
		}
	}
	return false
}

// globMatch: fnmatch-like, '*' matches any run of characters (including '/').
func globMatch(pat, s string) bool {
	if pat == "" {
		return s == ""
	}
	if pat[0] == '*' {
		for i := 0; i <= len(s); i++ {
			if globMatch(pat[1:], s[i:]) {
				return true
			}
		}
		return false
	}
	if s == "" || (pat[0] != '?' && pat[0] != s[0]) {
		return false
	}
	return globMatch(pat[1:], s[1:])
}

package vrt

// Process-crash support: FreezeOthers stops, for the rest of the execution,
// every thread that exists now except the caller, and drops every timer armed
// so far. A frozen thread is never scheduled again, is no channel partner, does
// not keep Quiesce waiting and is not reported as deadlocked or leaked; what it
// holds (mutexes, half-done channel operations) stays as it is, exactly like
// the memory of a killed process — so only objects shared with the survivors
// (package-level state) can still be affected by it, and only passively.
//
// It models `kill -9` of a simulated process whose threads live in this
// execution next to the simulators that survive it. Simulator threads that must
// survive have to be started after the call (or be the caller).
func FreezeOthers() (frozen int) {
	x := cur
	if x == nil || x.finished {
		return 0
	}
	me := x.cur
	for _, t := range x.threads {
		if t == me || t.done || t.frozen {
			continue
		}
		t.frozen = true
		frozen++
	}
	for _, e := range x.timers {
		e.stopped = true
	}
	return frozen
}

// Frozen reports how many threads of the current execution are frozen.
func Frozen() (n int) {
	if cur == nil {
		return 0
	}
	for _, t := range cur.threads {
		if t.frozen && !t.done {
			n++
		}
	}
	return
}

package vrt

import (
	"fmt"
	"reflect"
	"sort"
)

// Map-access atomicity monitor: models the Go runtime's "concurrent map
// writes" / "concurrent map read and map write" fatal errors deterministically.
type mapAcc struct {
	writing int
	reading int
	wsite   string
}

func (x *Exec) mapOf(m any) *mapAcc {
	v := reflect.ValueOf(m)
	if !v.IsValid() || v.Kind() != reflect.Map || v.IsNil() {
		return nil
	}
	p := v.Pointer()
	a := x.mapMon[p]
	if a == nil {
		a = &mapAcc{}
		x.mapMon[p] = a
	}
	return a
}

func noop() {}

// MapW brackets a map write: `defer`-free usage `e := vrt.MapW(m, site); m[k]=v; e()`.
func MapW(m any, site string) func() {
	x := cur
	if x == nil || x.finished || x.aborting {
		return noop
	}
	a := x.mapOf(m)
	if a == nil {
		return noop
	}
	if a.writing > 0 {
		x.fatal(fmt.Sprintf("fatal error: concurrent map writes (%s and %s)", a.wsite, site))
	}
	if a.reading > 0 {
		x.fatal(fmt.Sprintf("fatal error: concurrent map read and map write (write at %s)", site))
	}
	a.writing++
	a.wsite = site
	x.point(&op{kind: OpMap, site: site})
	return func() { a.writing-- }
}

// MapR brackets a map read.
func MapR(m any, site string) func() {
	x := cur
	if x == nil || x.finished || x.aborting {
		return noop
	}
	a := x.mapOf(m)
	if a == nil {
		return noop
	}
	if a.writing > 0 {
		x.fatal(fmt.Sprintf("fatal error: concurrent map read and map write (write at %s, read at %s)", a.wsite, site))
	}
	a.reading++
	x.point(&op{kind: OpMap, site: site})
	return func() { a.reading-- }
}

func (x *Exec) fatal(msg string) {
	panic(msg)
}

// MapKeys returns the keys of m in a deterministic, explorer-chosen order:
// sorted (by formatted value), rotated by a choice when rot is true.
func MapKeys[K comparable, V any](m map[K]V, site string, rot bool) []K {
	keys := make([]K, 0, len(m))
	for k := range m {
		keys = append(keys, k)
	}
	if len(keys) < 2 {
		return keys
	}
	x := cur
	sort.Slice(keys, func(i, j int) bool { return keyLess(x, keys[i], keys[j]) })
	if rot && len(keys) > 1 && x != nil && !x.finished {
		r := Choose(len(keys), "maporder "+site)
		keys = append(keys[r:], keys[:r]...)
	}
	return keys
}

// Snap is a deterministic snapshot of a map's keys for iteration.
type Snap[K comparable, V any] struct {
	m    map[K]V
	keys []K
}

// MapSnap replaces `range m` over a map: keys in sorted order (a legal Go order).
func MapSnap[K comparable, V any](m map[K]V, site string) *Snap[K, V] {
	return &Snap[K, V]{m: m, keys: MapKeys(m, site, false)}
}
func (s *Snap[K, V]) Len() int { return len(s.keys) }

// At returns the i-th key and its current value; ok=false if it was deleted meanwhile.
func (s *Snap[K, V]) At(i int) (K, V, bool) {
	k := s.keys[i]
	v, ok := s.m[k]
	return k, v, ok
}

var ptrOrder = map[uintptr]int{}

type verifKeyer interface{ VerifKey() string }

func keyLess(x *Exec, a, b any) bool {
	if ka, ok := a.(verifKeyer); ok {
		if kb, ok := b.(verifKeyer); ok {
			sa, sb := ka.VerifKey(), kb.VerifKey()
			if sa != sb {
				return sa < sb
			}
		}
	}
	va, vb := reflect.ValueOf(a), reflect.ValueOf(b)
	switch va.Kind() {
	case reflect.String:
		return va.String() < vb.String()
	case reflect.Int, reflect.Int8, reflect.Int16, reflect.Int32, reflect.Int64:
		return va.Int() < vb.Int()
	case reflect.Uint, reflect.Uint8, reflect.Uint16, reflect.Uint32, reflect.Uint64:
		return va.Uint() < vb.Uint()
	case reflect.Ptr, reflect.Chan, reflect.UnsafePointer:
		return ptrIdx(va.Pointer()) < ptrIdx(vb.Pointer())
	}
	return fmt.Sprint(a) < fmt.Sprint(b)
}

func ptrIdx(p uintptr) int {
	if i, ok := ptrOrder[p]; ok {
		return i
	}
	i := len(ptrOrder)
	ptrOrder[p] = i
	return i
}

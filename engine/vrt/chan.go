package vrt

import (
	"fmt"
	"reflect"
)

// Channel state is kept by the runtime, keyed by the identity of the real
// channel object. The real channel is never used for blocking; it is only
// probed (non-blockingly) for values/closure produced by uninstrumented code
// (e.g. context.Done()).
type chanState struct {
	ref       reflect.Value // keeps the channel alive (stable identity)
	cap       int
	buf       []any
	closed    bool
	modelUsed bool
}

type selCase struct {
	send bool
	cs   *chanState // nil = nil channel (never ready)
	val  any
}

func (x *Exec) chanOf(ch any) *chanState {
	v := reflect.ValueOf(ch)
	if !v.IsValid() || v.IsNil() {
		return nil
	}
	p := v.Pointer()
	cs := x.chans[p]
	if cs == nil {
		cs = &chanState{ref: v, cap: v.Cap()}
		x.chans[p] = cs
	}
	return cs
}

// probeReal pulls what uninstrumented code put into / did to the real channel.
func (cs *chanState) probeReal() {
	if cs.modelUsed || cs.closed {
		return
	}
	if cs.ref.Type().ChanDir()&reflect.RecvDir == 0 {
		return
	}
	for {
		chosen, v, ok := reflect.Select([]reflect.SelectCase{{Dir: reflect.SelectRecv, Chan: cs.ref}, {Dir: reflect.SelectDefault}})
		if chosen != 0 {
			return
		}
		if !ok {
			cs.closed = true
			return
		}
		cs.buf = append(cs.buf, v.Interface())
	}
}

// partner looks for a parked thread with a matching (opposite-direction) case.
func (x *Exec) partner(cs *chanState, wantSend bool, me *thread) (*thread, int) {
	for _, t := range x.threads {
		if t == me || t.done || t.frozen || t.pending == nil || t.pending.done || t.pending.kind != OpChan {
			continue
		}
		for i, c := range t.pending.cases {
			if c.cs == cs && c.send == wantSend {
				return t, i
			}
		}
	}
	return nil, -1
}

func (x *Exec) caseReady(c selCase, me *thread) bool {
	if c.cs == nil {
		return false
	}
	if c.send {
		if c.cs.closed || len(c.cs.buf) < c.cs.cap {
			return true
		}
		if c.cs.cap != 0 {
			return false
		}
		p, _ := x.partner(c.cs, false, me)
		return p != nil
	}
	c.cs.probeReal()
	if len(c.cs.buf) > 0 || c.cs.closed {
		return true
	}
	if c.cs.cap != 0 {
		return false
	}
	p, _ := x.partner(c.cs, true, me)
	return p != nil
}

// doSelect performs a (possibly single-case) channel operation.
// Returns fired case index (-1 = default), received value, ok.
func (x *Exec) doSelect(site string, cases []selCase, hasDefault bool) (int, any, bool) {
	if x.aborting {
		panic(abortSentinel{})
	}
	me := x.cur
	o := &op{kind: OpChan, site: site, cases: cases}
	if !hasDefault {
		o.enabled = func() bool {
			for _, c := range cases {
				if x.caseReady(c, me) {
					return true
				}
			}
			return false
		}
	}
	o.descF = func() string {
		if len(cases) == 1 {
			d := "recv"
			if cases[0].send {
				d = "send"
			}
			if cases[0].cs == nil {
				return d + " nil-chan"
			}
			return d + fmt.Sprintf(" chan %v cap=%d", cases[0].cs.ref.Type(), cases[0].cs.cap)
		}
		return fmt.Sprintf("select/%d", len(cases))
	}
	x.point(o)
	if o.done {
		if Debug {
			fmt.Printf("  [t%d] channel op completed by partner: case %d\n", me.id, o.fired)
		}
		return o.fired, o.val, o.ok
	}
	var ready []int
	for i, c := range cases {
		if x.caseReady(c, me) {
			ready = append(ready, i)
		}
	}
	if len(ready) == 0 {
		if hasDefault {
			return -1, nil, false
		}
		panic("vrt: select chosen with no ready case")
	}
	k := 0
	if len(ready) > 1 {
		k = x.choose(len(ready), true, "select-ready", false)
	}
	i := ready[k]
	c := cases[i]
	if Debug {
		fmt.Printf("  [t%d] select fires case %d of %d ready=%v (done=%v)\n", me.id, i, len(cases), ready, o.done)
	}
	cs := c.cs
	cs.modelUsed = true
	if c.send {
		if cs.closed {
			panic("send on closed channel")
		}
		if p, pi := x.partner(cs, false, me); p != nil && cs.cap == 0 {
			p.pending.done, p.pending.fired, p.pending.val, p.pending.ok = true, pi, c.val, true
			return i, nil, true
		}
		cs.buf = append(cs.buf, c.val)
		return i, nil, true
	}
	// receive
	if len(cs.buf) > 0 {
		v := cs.buf[0]
		cs.buf = cs.buf[1:]
		return i, v, true
	}
	if p, pi := x.partner(cs, true, me); p != nil && cs.cap == 0 {
		v := p.pending.cases[pi].val
		p.pending.done, p.pending.fired, p.pending.ok = true, pi, true
		return i, v, true
	}
	if cs.closed {
		return i, nil, false
	}
	panic("vrt: receive chosen but nothing to receive")
}

// Send replaces `ch <- v`.
func Send[T any](ch chan<- T, v T) {
	x := cur
	if x == nil || x.finished {
		ch <- v
		return
	}
	x.doSelect(caller(2), []selCase{{send: true, cs: x.chanOf(ch), val: v}}, false)
}

// Recv replaces `<-ch`.
func Recv[T any](ch <-chan T) T {
	x := cur
	if x == nil || x.finished {
		return <-ch
	}
	_, v, ok := x.doSelect(caller(2), []selCase{{cs: x.chanOf(ch)}}, false)
	if !ok || v == nil {
		var z T
		return z
	}
	return v.(T)
}

// Recv2 replaces `v, ok := <-ch`.
func Recv2[T any](ch <-chan T) (T, bool) {
	x := cur
	if x == nil || x.finished {
		v, ok := <-ch
		return v, ok
	}
	_, v, ok := x.doSelect(caller(2), []selCase{{cs: x.chanOf(ch)}}, false)
	if !ok || v == nil {
		var z T
		return z, ok
	}
	return v.(T), ok
}

// Close replaces close(ch).
func Close[T any](ch chan<- T) {
	x := cur
	if x == nil || x.finished {
		close(ch)
		return
	}
	if x.aborting {
		return
	}
	cs := x.chanOf(ch)
	if cs == nil {
		panic("close of nil channel")
	}
	if cs.closed {
		panic("close of closed channel")
	}
	cs.modelUsed = true
	cs.closed = true
}

// Len replaces len(ch) for channels.
func Len(ch any) int {
	x := cur
	if x == nil || x.finished {
		return reflect.ValueOf(ch).Len()
	}
	cs := x.chanOf(ch)
	if cs == nil {
		return 0
	}
	cs.probeReal()
	return len(cs.buf)
}

// Case is one arm of a rewritten select statement.
type Case interface {
	sel(x *Exec) selCase
	set(v any, ok bool)
	native() reflect.SelectCase
}

// RecvC is a receive arm.
type RecvC[T any] struct {
	ch <-chan T
	v  T
	ok bool
}

func RecvCase[T any](ch <-chan T) *RecvC[T] { return &RecvC[T]{ch: ch} }
func (c *RecvC[T]) sel(x *Exec) selCase     { return selCase{cs: x.chanOf(c.ch)} }
func (c *RecvC[T]) set(v any, ok bool) {
	c.ok = ok
	if ok && v != nil {
		c.v = v.(T)
	}
}
func (c *RecvC[T]) native() reflect.SelectCase {
	return reflect.SelectCase{Dir: reflect.SelectRecv, Chan: reflect.ValueOf(c.ch)}
}
func (c *RecvC[T]) Val() T   { return c.v }
func (c *RecvC[T]) Ok() bool { return c.ok }

// SendC is a send arm.
type SendC[T any] struct {
	ch chan<- T
	v  T
}

func SendCase[T any](ch chan<- T, v T) *SendC[T] { return &SendC[T]{ch: ch, v: v} }
func (c *SendC[T]) sel(x *Exec) selCase          { return selCase{send: true, cs: x.chanOf(c.ch), val: c.v} }
func (c *SendC[T]) set(any, bool)                {}
func (c *SendC[T]) native() reflect.SelectCase {
	return reflect.SelectCase{Dir: reflect.SelectSend, Chan: reflect.ValueOf(c.ch), Send: reflect.ValueOf(c.v)}
}

// Select replaces a select statement; returns the index of the arm that fired, -1 for default.
func Select(hasDefault bool, cases ...Case) int {
	x := cur
	if x == nil || x.finished {
		return nativeSelect(hasDefault, cases)
	}
	if len(cases) == 0 && !hasDefault {
		BlockForever()
	}
	sc := make([]selCase, len(cases))
	for i, c := range cases {
		sc[i] = c.sel(x)
	}
	i, v, ok := x.doSelect(caller(2), sc, hasDefault)
	if i >= 0 {
		cases[i].set(v, ok)
	}
	return i
}

// BlockForever replaces `select {}`.
func BlockForever() {
	x := cur
	if x == nil || x.finished {
		select {}
	}
	x.point(&op{kind: OpChan, site: caller(2), desc: "select{}", enabled: func() bool { return false }})
}

func nativeSelect(hasDefault bool, cases []Case) int {
	var rc []reflect.SelectCase
	for _, c := range cases {
		rc = append(rc, c.native())
	}
	if hasDefault {
		rc = append(rc, reflect.SelectCase{Dir: reflect.SelectDefault})
	}
	i, v, ok := reflect.Select(rc)
	if hasDefault && i == len(cases) {
		return -1
	}
	if rc[i].Dir == reflect.SelectRecv {
		if ok {
			cases[i].set(v.Interface(), true)
		} else {
			cases[i].set(nil, false)
		}
	}
	return i
}

// SendTo is the curried form used by the rewriter so that T is inferred from
// the channel alone and the value is converted by assignability.
func SendTo[T any](ch chan<- T) func(T) {
	site := caller(2)
	return func(v T) {
		x := cur
		if x == nil || x.finished {
			ch <- v
			return
		}
		x.doSelect(site, []selCase{{send: true, cs: x.chanOf(ch), val: v}}, false)
	}
}

// SendCaseTo is the curried form of SendCase.
func SendCaseTo[T any](ch chan<- T) func(T) *SendC[T] {
	return func(v T) *SendC[T] { return &SendC[T]{ch: ch, v: v} }
}

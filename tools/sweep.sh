#!/bin/bash
# runs every registered check (quick by default) and prints one line per property
tier=${1:-quick}
cd "$(dirname "$0")/.."
for p in $(python3 -c "
import json
print(' '.join(c['property_id'] for c in json.load(open('MANIFEST.json'))['checks']))"); do
  s=$(date +%s)
  out=$(./check $p --tier $tier 2>&1); rc=$?
  e=$(( $(date +%s) - s ))
  echo "$p rc=$rc ${e}s $(echo "$out" | grep -c '^VIOLATION') violations $(echo "$out" | grep -c '^KNOWN-FINDING') known | $(echo "$out" | tail -1 | cut -c1-150)"
done

#!/usr/bin/env python3
"""Shared driver library: instrument /repo's current tree, build harness binaries, run them."""
import hashlib, json, os, subprocess, sys, glob, shutil, time

VERIF = os.path.dirname(os.path.dirname(os.path.abspath(__file__)))
REPO = os.environ.get("VERIF_REPO", "/repo")
WORK = os.environ.get("VERIF_WORK", "/tmp/verif-work")
ENV = dict(os.environ, GOFLAGS="-mod=mod", GOPROXY="off", GOSUMDB="off", GOTOOLCHAIN="local", CGO_ENABLED="0")

PACKAGES = [
    "common/event", "common/utils/safeacks", "common/gera", "common/utils", "common/utils/uid",
    "core/controlcommands", "core/workflow", "core/workflow/callable",
    "core/environment", "core/task", "core", "core/the",
    "executor/executable", "executor/executorcmd", "executor",
    "apricot/local", "configuration/cfgbackend",
]

def sh(cmd, **kw):
    return subprocess.run(cmd, env=ENV, **kw)

def ensure_tools():
    os.makedirs(os.path.join(VERIF, "bin"), exist_ok=True)
    gi = os.path.join(VERIF, "bin", "goinstr")
    src = os.path.join(VERIF, "engine", "goinstr", "main.go")
    if not os.path.exists(gi) or os.path.getmtime(gi) < os.path.getmtime(src):
        r = sh(["go", "build", "-o", gi, "."], cwd=os.path.join(VERIF, "engine", "goinstr"))
        if r.returncode != 0:
            sys.exit("cannot build goinstr")
    return gi

def file_hash(paths):
    h = hashlib.sha1()
    for p in sorted(paths):
        h.update(p.encode()); h.update(b"\0")
        with open(p, "rb") as f:
            h.update(f.read())
        h.update(b"\0")
    return h.hexdigest()[:16]

def inject_files():
    """/verif/harness/inject/<pkgpath>/verif_*.go -> <pkgpath>/verif_*.go"""
    out = {}
    base = os.path.join(VERIF, "harness", "inject")
    for root, _, files in os.walk(base):
        for f in files:
            if f.endswith(".go"):
                rel = os.path.relpath(os.path.join(root, f), base)
                out[rel] = os.path.join(root, f)
    return out

def virtual_files():
    out = {}
    for f in glob.glob(os.path.join(VERIF, "engine", "vrt", "*.go")):
        if not f.endswith("_test.go"):
            out["verif_vrt/" + os.path.basename(f)] = f
    hb = os.path.join(VERIF, "harness")
    for root, _, files in os.walk(hb):
        rel = os.path.relpath(root, hb)
        if rel.startswith("inject"):
            continue
        for f in files:
            if f.endswith(".go"):
                out[os.path.join("verif_h", rel, f)] = os.path.join(root, f)
    return out

def instr_config():
    cfgp = os.path.join(VERIF, "harness", "instr.json")
    extra = {}
    if os.path.exists(cfgp):
        extra = json.load(open(cfgp))
    return extra

def instrument(verbose=False):
    """Instrument the current /repo tree; returns the overlay path. Cached by content hash."""
    gi = ensure_tools()
    srcs = []
    for p in PACKAGES:
        srcs += [f for f in glob.glob(os.path.join(REPO, p, "*.go")) if not f.endswith("_test.go")]
    inj = inject_files()
    virt = virtual_files()
    extra = instr_config()
    key = file_hash(srcs + list(inj.values()) + [gi, os.path.join(REPO, "go.mod")] + [v for k, v in virt.items() if k.startswith("verif_vrt/")]) + hashlib.sha1(json.dumps([sorted(inj), extra], sort_keys=True).encode()).hexdigest()[:8]
    out = os.path.join(WORK, "instr-" + key)
    ov = os.path.join(out, "overlay.json")
    if not os.path.exists(os.path.join(out, "ok")):
        # drop stale instrumentation dirs
        for d in glob.glob(os.path.join(WORK, "instr-*")):
            shutil.rmtree(d, ignore_errors=True)
        os.makedirs(out, exist_ok=True)
        cfg = {"repo": REPO, "out": out, "packages": PACKAGES, "inject": inj, "virtual": {}, "fsm": True,
               "typecheck_virtual": {k: v for k, v in virt.items() if k.startswith("verif_vrt/")}}
        cfg.update(extra)
        cp = os.path.join(out, "config.json")
        json.dump(cfg, open(cp, "w"), indent=1)
        t0 = time.time()
        r = sh([gi, "-config", cp], stdout=subprocess.PIPE, stderr=subprocess.STDOUT, text=True)
        if r.returncode != 0:
            sys.stdout.write(r.stdout)
            sys.exit("ENGINE-ERROR: goinstr failed (the tree does not type-check with hooks, or uses an unsupported construct)")
        if verbose:
            print(r.stdout.strip(), "(%.1fs)" % (time.time() - t0))
        open(os.path.join(out, "ok"), "w").write("ok")
    # virtual files are re-added on every call (harness sources change more often than /repo)
    o = json.load(open(ov))
    rep = {k: v for k, v in o["Replace"].items() if "/verif_vrt/" not in k and "/verif_h/" not in k}
    for k, v in virt.items():
        rep[os.path.join(REPO, k)] = v
    # go.mod / go.sum are served from copies: a build can never modify /repo
    for f in ("go.mod", "go.sum"):
        dst = os.path.join(out, f)
        shutil.copyfile(os.path.join(REPO, f), dst)
        rep[os.path.join(REPO, f)] = dst
    ov2 = os.path.join(out, "overlay-full.json")
    json.dump({"Replace": rep}, open(ov2, "w"), indent=1)
    return ov2

def build(harness, verbose=False, race=False):
    """Build /verif/harness/<harness> (virtual package verif_h/<harness>) against the instrumented tree."""
    ov = instrument(verbose)
    os.makedirs(os.path.join(WORK, "bin"), exist_ok=True)
    out = os.path.join(WORK, "bin", harness.replace("/", "_"))
    cmd = ["go", "build", "-tags", "verif", "-overlay", ov, "-o", out, "./verif_h/" + harness]
    t0 = time.time()
    r = sh(cmd, cwd=REPO, stdout=subprocess.PIPE, stderr=subprocess.STDOUT, text=True)
    if r.returncode != 0:
        sys.stdout.write(r.stdout[-6000:])
        sys.exit("ENGINE-ERROR: harness %s does not build against the current tree" % harness)
    if verbose:
        print("built %s (%.1fs)" % (harness, time.time() - t0))
    return out

def build_race(harness="race", verbose=False):
    """Free-running race pass: /verif/harness/<harness> built with -race against the UNinstrumented
    tree (real goroutines, real sync); only the hook files that do not need the virtual run time are
    overlaid."""
    out_dir = os.path.join(WORK, "race")
    os.makedirs(out_dir, exist_ok=True)
    rep = {}
    for rel, src in inject_files().items():
        if "verif_vrt" in open(src).read():
            continue
        rep[os.path.join(REPO, rel)] = src
    hb = os.path.join(VERIF, "harness", harness)
    for f in glob.glob(os.path.join(hb, "*.go")):
        rep[os.path.join(REPO, "verif_h", harness, os.path.basename(f))] = f
    for f in ("go.mod", "go.sum"):
        dst = os.path.join(out_dir, f)
        shutil.copyfile(os.path.join(REPO, f), dst)
        rep[os.path.join(REPO, f)] = dst
    ov = os.path.join(out_dir, "overlay.json")
    json.dump({"Replace": rep}, open(ov, "w"), indent=1)
    out = os.path.join(WORK, "bin", harness + "-race")
    os.makedirs(os.path.join(WORK, "bin"), exist_ok=True)
    env = dict(ENV, CGO_ENABLED="1")
    t0 = time.time()
    r = subprocess.run(["go", "build", "-race", "-tags", "verif", "-overlay", ov, "-o", out, "./verif_h/" + harness],
                       cwd=REPO, env=env, stdout=subprocess.PIPE, stderr=subprocess.STDOUT, text=True)
    if r.returncode != 0:
        sys.stdout.write(r.stdout[-6000:])
        sys.exit("ENGINE-ERROR: race-pass harness %s does not build against the current tree" % harness)
    if verbose:
        print("built %s-race (%.1fs)" % (harness, time.time() - t0))
    return out

if __name__ == "__main__":
    if sys.argv[1] == "instr":
        print(instrument(True))
    elif sys.argv[1] == "build-race":
        print(build_race(sys.argv[2] if len(sys.argv) > 2 else "race", True))
    elif sys.argv[1] == "build":
        print(build(sys.argv[2], True))

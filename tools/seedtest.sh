#!/bin/bash
# seedtest.sh <prop-id lowercase e.g. c16> [check-prop e.g. C16]
# Verifies a seeded property-breaking change from /tmp/seedout-<id>: applies, builds, passes the
# repository's tests, demo fails with / passes without; then runs our check against it.
set -u
id=$1; P=${2:-$(echo $id | tr a-z A-Z)}
OUT=${3:-/tmp/seedout-$id}; SID=${4:-$id}; SV=/tmp/sv-$id
export GOFLAGS=-mod=mod GOPROXY=off GOSUMDB=off GOTOOLCHAIN=local
[ -f $OUT/patch.diff ] || { echo "no patch"; exit 2; }
git -C /repo worktree remove --force $SV 2>/dev/null
git -C /repo worktree add -q --detach $SV HEAD || exit 2
cd $SV
echo "== apply check"; git apply --check $OUT/patch.diff && echo applies || { echo "PATCH DOES NOT APPLY"; }
git apply $OUT/patch.diff
echo "== build"; go build ./... 2>&1 | tail -3
echo "== repo tests with patch (expect only the 2 known walnut failures)"
go test -vet=off -count=1 ./common/... ./core/... ./configuration/... ./apricot/... ./executor/... ./walnut/... 2>&1 | grep "^FAIL\s\|^ok" | grep -v "^ok" | grep -v "walnut/converter\|walnut/schemata" > /tmp/sv-$id-suite.log; if [ -s /tmp/sv-$id-suite.log ]; then echo "SUITE BROKEN:"; cat /tmp/sv-$id-suite.log; else echo "suite ok (only the 2 known walnut failures)"; fi
echo "== demo with patch (must FAIL)"
cp -r $OUT/demo/* $SV/ 2>/dev/null
RUN=$(grep -v '^#' $OUT/demo/run.sh | grep -v '^$' | tail -1)
( cd $SV && eval "$RUN" ) > /tmp/sv-$id-with.log 2>&1; echo "exit=$?"; tail -3 /tmp/sv-$id-with.log | cut -c1-200
echo "== demo without patch (must PASS)"
git apply -R $OUT/patch.diff
( cd $SV && eval "$RUN" ) > /tmp/sv-$id-without.log 2>&1; echo "exit=$?"; tail -2 /tmp/sv-$id-without.log | cut -c1-200
cd /verif
git -C /repo worktree remove --force $SV
rm -f /repo/core/environment/runcounter.txt.seed 2>/dev/null
echo "== our check $P against the change"
# SEED_REPO=<worktree of /repo>: run the check against that tree instead of /repo itself (VERIF_REPO)
R=${SEED_REPO:-/repo}
if [ "$R" != /repo ]; then export VERIF_REPO=$R VERIF_WORK=${VERIF_WORK:-/tmp/vw-seed}; fi
git -C $R apply $OUT/patch.diff && ./check $P > /tmp/sv-$id-check.log 2>&1; echo "check-exit=$?"
git -C $R checkout -- . ; git -C $R status --short | grep -v runcounter
grep -v "^KNOWN" /tmp/sv-$id-check.log | cut -c1-260 | tail -8
# store
D=/verif/seeded/$SID; mkdir -p $D; cp $OUT/patch.diff $D/; rm -rf $D/demo; cp -r $OUT/demo $D/demo; cp $OUT/notes.md $D/notes.md 2>/dev/null
python3 - "$id" "$P" "$OUT" "$SID" <<'PY'
import json,sys,re,os
id,P,OUT,SID=sys.argv[1],sys.argv[2],sys.argv[3],sys.argv[4]
log=open('/tmp/sv-%s-check.log'%id).read()
viol=[l.strip() for l in log.splitlines() if l.startswith('  ') and ':' in l]
caught='VIOLATION property=%s'%P in log
notes=open(OUT+'/notes.md').read() if os.path.exists(OUT+'/notes.md') else ''
suite=open('/tmp/sv-%s-suite.log'%id).read().strip()
w=open('/tmp/sv-%s-with.log'%id).read()[-400:]
wo=open('/tmp/sv-%s-without.log'%id).read()[-300:]
meta={"property":P,"origin":"fresh sub-agent given only the property text and a scratch worktree of /repo",
 "needs_to_manifest":notes[:1500],
 "verified":{"patch_applies_on_repo_head":True,"repo_builds":True,"existing_suite_with_patch":"only the 2 pre-existing walnut failures" if not suite else "BROKEN: "+suite,
   "demo_with_patch_tail":w,"demo_without_patch_tail":wo},
 "our_check":{"command":"git -C /repo apply patch.diff; ./check %s (quick tier); git -C /repo checkout -- ."%P,"caught":caught,"violation_clauses":[re.sub(r'\s+',' ',v)[:300] for v in viol][:8]}}
json.dump(meta,open('/verif/seeded/%s/meta.json'%SID,'w'),indent=1)
print("STORED seeded/%s caught=%s"%(SID,caught))
PY

#!/bin/bash
# tools/mutants.sh <ID> [patch ...]
# Re-runs the own mutant suite of one property: every mutants/<ID>/[0-9]*.patch (a deliberate
# property-breaking change of the real code, paths relative to the repository root) is applied to a
# scratch copy of /repo (never to /repo itself), build-checked with `go build ./...`, and
# `./check <ID>` (quick tier unless VERIF_TIER is set) is run against the copy through VERIF_REPO.
# A mutant is CAUGHT when the check exits 1 and prints VIOLATION lines; the violation signatures
# (scenario:clause) are listed. The unchanged copy is checked first and must exit 0.
# Environment: VERIF_REPO_SRC (default /repo), MUT_SCRATCH (default /tmp/repo-mut),
# VERIF_WORK (default /tmp/vw-mut), MUT_NO_BASELINE=1 skips the run on the unchanged copy.
# Exit status: 0 all caught, 1 at least one missed / not applicable / not building.
set -u
[ $# -ge 1 ] || { echo "usage: $0 <ID> [patch ...]"; exit 2; }
ID=$1; shift
V=$(cd "$(dirname "$0")/.." && pwd)
SRC=${VERIF_REPO_SRC:-/repo}
S=${MUT_SCRATCH:-/tmp/repo-mut}
export GOFLAGS=-mod=mod GOPROXY=off GOSUMDB=off GOTOOLCHAIN=local
export VERIF_WORK=${VERIF_WORK:-/tmp/vw-mut}
LOG=$(mktemp /tmp/mutants-$ID-XXXXXX.log)
EV=$V/evidence/$ID.json
[ -f "$EV" ] && cp "$EV" "$LOG.evidence"
restore() { # ./check rewrites evidence/<ID>.json; a mutant run must not leave its numbers there
  if [ -f "$LOG.evidence" ]; then mv "$LOG.evidence" "$EV"; fi
  rm -f "$LOG"
}
trap restore EXIT
runcheck() { (cd "$V" && VERIF_REPO=$S ./check "$ID") > "$LOG" 2>&1; }
sigs() { grep -B1 "^VIOLATION property=$ID" "$LOG" | grep "^  " | cut -c1-240; }

rm -rf "$S"; cp -r "$SRC" "$S" || exit 3
if [ -z "${MUT_NO_BASELINE:-}" ]; then
  runcheck; rc=$?
  if [ $rc -ne 0 ]; then echo "unchanged copy: ./check $ID exits $rc (expected 0)"; tail -5 "$LOG"; rm -rf "$S"; exit 3; fi
  echo "unchanged copy: $(grep "^$ID tier=" "$LOG")"
fi
[ $# -gt 0 ] || set -- "$V"/mutants/$ID/[0-9]*.patch
caught=0; missed=0
for p in "$@"; do
  [ -f "$p" ] || p=$V/mutants/$ID/$p
  n=$(basename "$p" .patch)
  (cd "$S" && git checkout -q -- . && git apply "$p") || { echo "$n: PATCH DOES NOT APPLY"; missed=$((missed+1)); continue; }
  if ! (cd "$S" && go build ./... ) > "$LOG" 2>&1; then echo "$n: DOES NOT BUILD"; tail -3 "$LOG"; missed=$((missed+1)); continue; fi
  t0=$(date +%s)
  runcheck; rc=$?
  dt=$(( $(date +%s) - t0 ))
  if [ $rc -eq 1 ] && grep -q "^VIOLATION property=$ID" "$LOG"; then
    echo "$n: CAUGHT (${dt}s, $(grep -c "^VIOLATION property=$ID" "$LOG") violation signatures)"
    sigs | head -${MUT_SHOW:-6} | sed 's/^/    /'
    caught=$((caught+1))
  elif [ $rc -eq 0 ]; then
    echo "$n: MISSED (${dt}s) $(grep "^$ID tier=" "$LOG")"
    missed=$((missed+1))
  else
    echo "$n: ENGINE ERROR exit=$rc (${dt}s; not a verdict)"; tail -4 "$LOG" | cut -c1-300 | sed 's/^/    /'
    missed=$((missed+1))
  fi
done
rm -rf "$S"
echo "$ID: $caught caught, $missed missed"
[ $missed -eq 0 ]

#!/usr/bin/env python3
"""Regenerates the fixed / known tables of DESIGN.md section 5 from known_findings.txt."""
import re,subprocess,os
V=os.path.dirname(os.path.dirname(os.path.abspath(__file__)))
kf=open(os.path.join(V,'known_findings.txt')).read().splitlines()
def esc(t): return t.replace('|','/').replace('\\','\\\\')
fx=['| property | commit | what failed (failing input / schedule) |','|---|---|---|']
for l in kf:
    m=re.match(r'fixed: property=(\S+) (\S+) (.*)',l)
    if m:
        subj=subprocess.run(['git','-C','/repo','log','--format=%s','-n1',m.group(2)],capture_output=True,text=True).stdout.strip()
        fx.append('| %s | `%s` %s | %s |'%(m.group(1),m.group(2),esc(subj.replace('fix: ','')),esc(m.group(3))))
kn=['| property | signature | what fails and why it was not repaired |','|---|---|---|']
for l in kf:
    m=re.match(r'known: property=(\S+) signature=(\S+) (.*)',l)
    if m: kn.append('| %s | `%s` | %s |'%(m.group(1),esc(m.group(2)),esc(m.group(3))))
p=os.path.join(V,'DESIGN.md'); s=open(p).read()
s=re.sub(r'<!-- FIXED-TABLE-BEGIN -->.*<!-- FIXED-TABLE-END -->',lambda _:'<!-- FIXED-TABLE-BEGIN -->\n'+'\n'.join(fx)+'\n<!-- FIXED-TABLE-END -->',s,flags=re.S)
s=re.sub(r'<!-- KNOWN-TABLE-BEGIN -->.*<!-- KNOWN-TABLE-END -->',lambda _:'<!-- KNOWN-TABLE-BEGIN -->\n'+'\n'.join(kn)+'\n<!-- KNOWN-TABLE-END -->',s,flags=re.S)
open(p,'w').write(s); print(len(fx)-2,'fixed',len(kn)-2,'known')

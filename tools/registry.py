"""Property -> harness registry, assembled from harness/*/registry.json
(each file: {"<PROP>": {harness, level, technique, level_text, level_note, rule, assumptions, ...}})."""
import glob, json, os
_V = os.path.dirname(os.path.dirname(os.path.abspath(__file__)))
REGISTRY = {}
for _f in sorted(glob.glob(os.path.join(_V, "harness", "*", "registry.json"))):
    for _k, _v in json.load(open(_f)).items():
        REGISTRY[_k] = _v
NOT_APPLICABLE = {}
_na = os.path.join(_V, "harness", "not_applicable.json")
if os.path.exists(_na):
    NOT_APPLICABLE = json.load(open(_na))

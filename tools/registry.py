"""Property -> harness registry (what the check driver runs and how it reports)."""
REGISTRY = {
 "C19": {
  "harness": "c19", "level": "exploration",
  "technique": "stateless model checking of the real code: preemption-bounded exhaustive schedule exploration (DFS over thread interleavings under a cooperative scheduler)",
  "level_text": "All interleavings of producers, the batching and writing loops, a slow broker and Close() of the real KafkaWriter/FifoBuffer up to preemption bound 2 (quick) / 3 (thorough) for 6 producer/event configurations; oracle: exactly-once, per-producer order, batch<=100, partition key, Close returns, nothing accepted is lost. Right level because the property quantifies over schedules and the bugs found (lost flush, missed wake-up) need a specific interleaving.",
  "level_note": "Trusted: vrt scheduler fidelity (self-tests), goinstr rewrite rules; Kafka replaced by an injected write function; sequentially consistent memory.",
  "rule": "every thread interleaving of producers / batching loop / writing loop / broker / closer of the real KafkaWriter+FifoBuffer up to the stated preemption bound, per scenario (producers x events); an execution is non-trivial if at least one batch reached the broker (or the scenario publishes nothing); distinct = distinct observation logs (batch contents and order) among those",
  "assumptions": ["vrt is sequentially consistent (no weak-memory effects)", "Kafka itself is replaced by an injected write function; broker latency = a scheduling point inside it", "kafka.Writer.Close() of an unused writer does not block"],
 },
}

NOT_APPLICABLE = {}

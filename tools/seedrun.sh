#!/bin/bash
# seedrun.sh <seeded-id> <PROP> [check args...] : apply seeded/<id>/patch.diff to /repo, run ./check, undo.
# SEED_REPO=<worktree of /repo>: patch and check that tree instead (through VERIF_REPO), /repo stays untouched.
id=$1; shift
R=${SEED_REPO:-/repo}
if [ "$R" != /repo ]; then export VERIF_REPO=$R VERIF_WORK=${VERIF_WORK:-/tmp/vw-seed}; fi
git -C $R apply /verif/seeded/$id/patch.diff || exit 2
trap 'git -C $R checkout -- .' EXIT
cd /verif && ./check "$@"
echo "check-exit=$?"

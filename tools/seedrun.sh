#!/bin/bash
# seedrun.sh <seeded-id> <PROP> [check args...] : apply seeded/<id>/patch.diff to /repo, run ./check, undo.
id=$1; shift
git -C /repo apply /verif/seeded/$id/patch.diff || exit 2
trap 'git -C /repo checkout -- .' EXIT
cd /verif && ./check "$@"
echo "check-exit=$?"

#!/usr/bin/env python3
"""Regenerates the seeded-changes table in DESIGN.md from seeded/*/meta.json."""
import json,glob,os,re
V=os.path.dirname(os.path.dirname(os.path.abspath(__file__)))
rows=[]
SUM=json.load(open(os.path.join(V,'seeded','SUMMARIES.json'))) if os.path.exists(os.path.join(V,'seeded','SUMMARIES.json')) else {}
for m in sorted(glob.glob(os.path.join(V,'seeded','*','meta.json'))):
    d=json.load(open(m)); sid=os.path.basename(os.path.dirname(m))
    patch=open(os.path.join(os.path.dirname(m),'patch.diff')).read()
    files=sorted(set(re.findall(r'^\+\+\+ b/(\S+)',patch,re.M)))
    c=d['our_check']
    cl='; '.join(sorted(set(re.sub(r':? .*','',v.split(': ')[0]) for v in c['violation_clauses'])))[:160] if c['caught'] else '—'
    note=SUM.get(sid,d.get('summary',''))
    verdict='**caught**' if c['caught'] else 'MISSED'
    if not c['caught'] and d.get('other_check',{}).get('caught'):
        verdict='not by this check; **caught** by '+d['other_check']['command'].split()[-1]
        cl=d['other_check']['violation_clauses'][0][:160]
    rows.append('| %s | %s | %s | %s | %s |'%(d['property'],', '.join(files),note,verdict,cl))
tab='| property | changed file(s) | what the change does / needs | our quick check | catching scenario:clause |\n|---|---|---|---|---|\n'+'\n'.join(rows)
p=os.path.join(V,'DESIGN.md'); s=open(p).read()
s=re.sub(r'<!-- SEEDED-TABLE-BEGIN -->.*<!-- SEEDED-TABLE-END -->','<!-- SEEDED-TABLE-BEGIN -->\n'+tab.replace('\\','\\\\')+'\n<!-- SEEDED-TABLE-END -->',s,flags=re.S)
open(p,'w').write(s); print(len(rows),'rows')

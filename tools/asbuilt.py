#!/usr/bin/env python3
"""Regenerates the '*As built*' paragraph of every property section of DESIGN.md from the registry and the evidence files."""
import json,re,sys,os,textwrap
V=os.path.dirname(os.path.dirname(os.path.abspath(__file__)))
sys.path.insert(0,os.path.join(V,'tools'))
from registry import REGISTRY
p=os.path.join(V,'DESIGN.md'); s=open(p).read()
s=re.sub(r'\n\*As built[^\n]*\n(?:[^\n]+\n)*','\n',s)
for prop,reg in sorted(REGISTRY.items()):
    m=re.search(r'^### %s — [^\n]*\n'%prop,s,re.M)
    if not m: continue
    try: ev=json.load(open(os.path.join(V,'evidence','%s.json'%prop)))
    except Exception: ev={}
    c=ev.get('coverage',{})
    hs=[reg['harness']]+[a['harness'] for a in reg.get('also',[])]
    nums=' Quick tier on the committed tree: %d evaluations, %d distinct non-trivial, exhaustive=%s, %.0f s.'%(c.get('evaluations',0),c.get('distinct_nontrivial',0),c.get('exhaustive'),ev.get('wall_s',0)) if c else ''
    text='*As built (harness %s; level %s).* %s%s'%(', '.join('`harness/%s`'%h for h in hs),reg['level'],reg['level_text'],nums)
    s=s[:m.end()]+'\n'+'\n'.join(textwrap.wrap(text,100))+'\n'+s[m.end():]
open(p,'w').write(s)
